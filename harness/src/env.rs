//! Component `env` (M8): what a task is TOLD about the resources it holds.
//!
//! The REAL worker state (real allocator, real `process_worker_message`) runs with the REAL `HqTaskLauncher`
//! (`hyperqueue::worker::start`): every `run` really spawns `/bin/sh -c env` through `build_program_task`, and the
//! harness reads the environment the process printed. A wrapper launcher records the `Allocation` the launcher was
//! handed (resource names and index labels through the worker's own maps). `taskset` is resolved through a PATH
//! that holds a stand-in script printing its CPU list (the pinning of the kernel is not observed, the list is).
//!
//! act lines (replayable):  `run <task> <rid:pol:amount,..> pin=<n|t|o> nv=<1|2> rv=<0|1> preset=<-|keys> hold=<0|1>`
//!                          `release <task>`
//! op lines:   `run <task> held=<rid|name|lab+lab|units|fractions;..|-> pin= nv= rv= preset=`  |  `run <task> refused`
//!             `release <task>`
//! out lines:  `env K=V ..` (the resource variables of the process, sorted) | `ts <list|->` | `end finished|failed`
use std::cell::RefCell;
use std::collections::BTreeMap;
use std::io::BufRead;
use std::path::PathBuf;
use std::rc::Rc;
use std::time::Duration;

use hyperqueue::transfer::messages::{PinMode, TaskBuildDescription, TaskKind, TaskKindProgram};
use hyperqueue::worker::start::HqTaskLauncher;
use hyperqueue::worker::streamer::StreamerRef;
use tako::internal::messages::worker::{
    ComputeTaskSeparateData, ComputeTaskSharedData, ComputeTasksMsg, FromWorkerMessage, TaskIdsMsg, ToWorkerMessage,
    WorkerRegistrationResponse, WorkerTaskUpdate,
};
use tako::launcher::{StopReason, TaskBuildContext, TaskLaunchData, TaskLauncher};
use tako::program::{FileOnCloseBehavior, ProgramDefinition, StdioDef};
use tako::resources::{
    AllocationRequest, ResourceAllocRequest, ResourceAmount, ResourceDescriptor, ResourceDescriptorItem,
    ResourceDescriptorKind, ResourceRequest, ResourceRequestVariants, ResourceRqId, ResourceRqMap, ResourceWeight,
};
use tako::verif::worker2::VerifWorker2;
use tako::worker::{ServerLostPolicy, WorkerConfiguration};
use tako::{InstanceId, JobId, JobTaskId, Priority, ResourceVariantId, TaskId, WorkerId};
use tokio::sync::oneshot;

use crate::util::{GenArgs, Rng, Trace};

const FPU: u64 = 10_000;

// ------------------------------------------------------------------------------------------------
// case parameters

#[derive(Clone, Debug)]
enum Kind {
    List(Vec<String>),
    Groups(Vec<Vec<String>>),
    Range(u32, u32),
    Sum(u32),
}

#[derive(Clone, Debug)]
struct Res {
    name: String,
    kind: Kind,
}

fn show_res(r: &Res) -> String {
    let k = match &r.kind {
        Kind::List(v) => format!("L:{}", v.join("+")),
        Kind::Groups(g) => format!("G:{}", g.iter().map(|x| x.join("+")).collect::<Vec<_>>().join("/")),
        Kind::Range(a, b) => format!("R:{a}-{b}"),
        Kind::Sum(s) => format!("S:{s}"),
    };
    format!("{}|{}", r.name, k)
}

fn parse_res(s: &str) -> Res {
    let (name, k) = s.split_once('|').expect("res");
    let (tag, body) = k.split_once(':').expect("kind");
    let kind = match tag {
        "L" => Kind::List(body.split('+').map(|x| x.to_string()).collect()),
        "G" => Kind::Groups(body.split('/').map(|g| g.split('+').map(|x| x.to_string()).collect()).collect()),
        "R" => {
            let (a, b) = body.split_once('-').unwrap();
            Kind::Range(a.parse().unwrap(), b.parse().unwrap())
        }
        "S" => Kind::Sum(body.parse().unwrap()),
        _ => panic!("bad kind {tag}"),
    };
    Res { name: name.to_string(), kind }
}

fn n_units(r: &Res) -> u64 {
    match &r.kind {
        Kind::List(v) => v.len() as u64,
        Kind::Groups(g) => g.iter().map(|x| x.len() as u64).sum(),
        Kind::Range(a, b) => (*b - *a + 1) as u64,
        Kind::Sum(s) => *s as u64,
    }
}

fn gen_labels(rng: &mut Rng, n: usize, style: u64) -> Vec<String> {
    // style 0: identity, 1: shifted numbers, 2: permuted numbers, 3: symbolic
    let mut v: Vec<String> = match style {
        0 => (0..n).map(|i| i.to_string()).collect(),
        1 => (0..n).map(|i| (i + 4).to_string()).collect(),
        2 => {
            let mut x: Vec<usize> = (0..n).collect();
            for i in (1..n).rev() {
                let j = rng.below(i as u64 + 1) as usize;
                x.swap(i, j);
            }
            x.iter().map(|i| i.to_string()).collect()
        }
        _ => (0..n).map(|i| format!("u{}-{}", i * 7 % 5, i)).collect(),
    };
    v.dedup();
    v
}

fn gen_kind(rng: &mut Rng, allow_sum: bool) -> Kind {
    match rng.below(if allow_sum { 5 } else { 4 }) {
        0 => {
            let a = rng.below(3) as u32;
            Kind::Range(a, a + rng.range(1, 5) as u32)
        }
        1 | 2 => {
            let n = rng.range(2, 6) as usize;
            let style = rng.below(4);
            Kind::List(gen_labels(rng, n, style))
        }
        3 => {
            let g = rng.range(2, 3) as usize;
            let per = rng.range(1, 3) as usize;
            let style = rng.below(4);
            let all = gen_labels(rng, g * per, style);
            Kind::Groups(all.chunks(per).map(|c| c.to_vec()).collect())
        }
        _ => Kind::Sum(rng.range(2, 100) as u32),
    }
}

const EXTRA_NAMES: [&str; 7] = ["gpus/nvidia", "gpus/amd", "mem", "fpga.x", "fpga-x", "my_res", "Q7"];

fn gen_case(rng: &mut Rng) -> Vec<Res> {
    let mut res = vec![Res { name: "cpus".to_string(), kind: gen_kind(rng, false) }];
    let n = rng.below(4) as usize;
    let mut names: Vec<&str> = EXTRA_NAMES.to_vec();
    for _ in 0..n {
        let i = rng.below(names.len() as u64) as usize;
        let name = names.remove(i);
        // "mem" is usually a sum; names that collide after normalisation (fpga.x / fpga-x) may both appear
        let kind = if name == "mem" && rng.chance(3, 4) { Kind::Sum(rng.range(2, 100) as u32) } else { gen_kind(rng, true) };
        res.push(Res { name: name.to_string(), kind });
    }
    res
}

// ------------------------------------------------------------------------------------------------
// requests

#[derive(Clone, Copy, Debug, PartialEq)]
enum Pol {
    C,
    S,
    T,
    A,
}

fn pol_tok(p: Pol) -> &'static str {
    match p {
        Pol::C => "C",
        Pol::S => "S",
        Pol::T => "T",
        Pol::A => "A",
    }
}

type Entry = (u32, Pol, u64);

fn show_rq(es: &[Entry]) -> String {
    if es.is_empty() {
        return "-".to_string();
    }
    es.iter().map(|(r, p, a)| format!("{r}:{}:{a}", pol_tok(*p))).collect::<Vec<_>>().join(",")
}

fn parse_rq(s: &str) -> Vec<Entry> {
    if s == "-" {
        return vec![];
    }
    s.split(',')
        .map(|e| {
            let t: Vec<&str> = e.split(':').collect();
            let p = match t[1] {
                "C" => Pol::C,
                "S" => Pol::S,
                "T" => Pol::T,
                "A" => Pol::A,
                x => panic!("bad policy {x}"),
            };
            (t[0].parse().unwrap(), p, t[2].parse().unwrap())
        })
        .collect()
}

fn to_request(es: &[Entry]) -> ResourceRequest {
    let entries = es
        .iter()
        .map(|(rid, p, a)| {
            let amount = ResourceAmount::new(( *a / FPU) as u32, (*a % FPU) as u32);
            let request = match p {
                Pol::C => AllocationRequest::Compact(amount),
                Pol::S => AllocationRequest::Scatter(amount),
                Pol::T => AllocationRequest::Tight(amount),
                Pol::A => AllocationRequest::All,
            };
            ResourceAllocRequest { resource_id: (*rid).into(), request }
        })
        .collect();
    ResourceRequest::new(0, Duration::from_secs(0), entries, ResourceWeight::default())
}

fn gen_rq(rng: &mut Rng, res: &[Res]) -> Vec<Entry> {
    let mut es = vec![];
    for (rid, r) in res.iter().enumerate() {
        // cpus almost always, others half of the time
        let take = if rid == 0 { !rng.chance(1, 8) } else { rng.chance(1, 2) };
        if !take {
            continue;
        }
        let n = n_units(r);
        let pol = match rng.below(8) {
            0 => Pol::A,
            1 | 2 => Pol::S,
            3 => Pol::T,
            _ => Pol::C,
        };
        let sum = matches!(r.kind, Kind::Sum(_));
        let mut amount = rng.range(1, n.min(3)) * FPU;
        if rng.chance(1, 4) {
            // a fractional part (its index is told as well)
            amount = amount - FPU + *rng.pick(&[2500u64, 5000, 7500]);
        }
        let pol = if sum && pol != Pol::A { Pol::C } else { pol };
        es.push((rid as u32, pol, amount));
    }
    es
}

// ------------------------------------------------------------------------------------------------
// launcher wrapper

#[derive(Clone, Debug)]
struct HeldRec {
    rid: u32,
    name: String,
    labels: Vec<String>,
    units: u32,
    fractions: u32,
}

struct EnvLauncher {
    inner: HqTaskLauncher,
    rec: Rc<RefCell<BTreeMap<u32, Vec<HeldRec>>>>,
}

impl TaskLauncher for EnvLauncher {
    fn build_task(&self, ctx: TaskBuildContext, stop_receiver: oneshot::Receiver<StopReason>) -> tako::Result<TaskLaunchData> {
        let (names, _) = ctx.get_resource_maps();
        let labels = ctx.get_resource_label_map();
        let held = ctx
            .allocation()
            .resources
            .iter()
            .map(|ra| HeldRec {
                rid: ra.resource_id.as_num(),
                name: names.get_name(ra.resource_id).unwrap_or("?").to_string(),
                labels: ra.indices.iter().map(|i| labels.get_label(ra.resource_id, i.index).to_string()).collect(),
                units: ra.amount.units(),
                fractions: ra.amount.fractions(),
            })
            .collect();
        self.rec.borrow_mut().insert(ctx.task_id().job_task_id().as_num(), held);
        self.inner.build_task(ctx, stop_receiver)
    }
}

// ------------------------------------------------------------------------------------------------
// the world of one case

struct W {
    rt: tokio::runtime::Runtime,
    local: tokio::task::LocalSet,
    vw: VerifWorker2,
    rec: Rc<RefCell<BTreeMap<u32, Vec<HeldRec>>>>,
    dir: PathBuf,
    next_rq: u32,
    held_tasks: Vec<u32>,
}

const KEYS: [&str; 9] = [
    "HQ_CPUS",
    "HQ_PIN",
    "HQ_RESOURCE_VARIANT",
    "CUDA_VISIBLE_DEVICES",
    "CUDA_DEVICE_ORDER",
    "ROCR_VISIBLE_DEVICES",
    "OMP_NUM_THREADS",
    "OMP_PLACES",
    "OMP_PROC_BIND",
];

fn scratch_dir() -> PathBuf {
    let base = std::env::var("HQV_SCRATCH").map(PathBuf::from).unwrap_or_else(|_| std::env::temp_dir());
    let d = base.join(format!("hqv-env-{}", std::process::id()));
    std::fs::create_dir_all(&d).unwrap();
    // stand-in for `taskset -c <list> prog args..`: print the list, run the program
    let ts = d.join("taskset");
    std::fs::write(&ts, "#!/bin/sh\necho \"__TASKSET=$2\"\nshift 2\nexec \"$@\"\n").unwrap();
    use std::os::unix::fs::PermissionsExt;
    std::fs::set_permissions(&ts, std::fs::Permissions::from_mode(0o755)).unwrap();
    d
}

impl W {
    fn new(res: &[Res]) -> W {
        let rt = tokio::runtime::Builder::new_current_thread().enable_all().build().unwrap();
        let local = tokio::task::LocalSet::new();
        let items: Vec<ResourceDescriptorItem> = res
            .iter()
            .map(|r| ResourceDescriptorItem {
                name: r.name.clone(),
                kind: match &r.kind {
                    Kind::List(v) => ResourceDescriptorKind::list(v.clone()).unwrap(),
                    Kind::Groups(g) => ResourceDescriptorKind::groups(g.clone()).unwrap(),
                    Kind::Range(a, b) => ResourceDescriptorKind::Range { start: (*a).into(), end: (*b).into() },
                    Kind::Sum(s) => ResourceDescriptorKind::Sum { size: ResourceAmount::new_units(*s) },
                },
            })
            .collect();
        let dir = scratch_dir();
        let config = WorkerConfiguration {
            resources: ResourceDescriptor::new(items, Default::default()),
            listen_address: "1.1.1.1:123".to_string(),
            hostname: "test1".to_string(),
            group: "default".to_string(),
            work_dir: dir.clone(),
            heartbeat_interval: Duration::from_millis(1000),
            overview_configuration: Default::default(),
            idle_timeout: None,
            time_limit: None,
            retract_check_interval: Duration::from_secs(30),
            on_server_lost: ServerLostPolicy::Stop,
            min_utilization: 0.0,
            extra: Default::default(),
        };
        let registration = WorkerRegistrationResponse {
            worker_id: WorkerId::new(1),
            resource_names: res.iter().map(|r| r.name.clone()).collect(),
            other_workers: vec![],
            server_idle_timeout: None,
            server_uid: "verif-uid".to_string(),
            worker_overview_interval_override: None,
            resource_rq_map: ResourceRqMap::default(),
        };
        let rec: Rc<RefCell<BTreeMap<u32, Vec<HeldRec>>>> = Default::default();
        let launcher = Box::new(EnvLauncher { inner: HqTaskLauncher::new(StreamerRef::new("verif-uid", WorkerId::new(1))), rec: rec.clone() });
        let vw = rt.block_on(local.run_until(async move { VerifWorker2::new(config, registration, launcher) }));
        W { rt, local, vw, rec, dir, next_rq: 0, held_tasks: vec![] }
    }

    fn pump(&mut self, msg: Option<ToWorkerMessage>, ms: u64) -> Vec<FromWorkerMessage> {
        let local = &self.local;
        let vw = &self.vw;
        self.rt.block_on(local.run_until(async move {
            if let Some(m) = msg {
                vw.process(m);
            }
            tokio::time::sleep(Duration::from_millis(ms)).await;
        }));
        self.vw.drain_messages()
    }

    fn out_file(&self, task: u32) -> PathBuf {
        self.dir.join(format!("out-{task}"))
    }

    /// run one task; returns (held, env lines of the process, taskset list, end)
    #[allow(clippy::too_many_arguments)]
    fn run(&mut self, task: u32, es: &[Entry], pin: PinMode, nv: u32, rv: u32, preset: &[String], hold: bool) -> Option<(Vec<HeldRec>, BTreeMap<String, String>, Option<String>, String)> {
        let rq_id = self.next_rq;
        self.next_rq += 1;
        let rqv = ResourceRequestVariants::new((0..nv).map(|_| to_request(es)).collect());
        self.pump(Some(ToWorkerMessage::NewResourceRequest(ResourceRqId::new(rq_id), rqv)), 0);
        let out = self.out_file(task);
        let _ = std::fs::remove_file(&out);
        let mut env: tako::Map<bstr::BString, bstr::BString> = Default::default();
        env.insert("PATH".into(), format!("{}:/usr/bin:/bin", self.dir.display()).into());
        for k in preset {
            env.insert(k.as_str().into(), "P".into());
        }
        let script = if hold { "env; echo __END__; exec sleep 100000" } else { "env; echo __END__" };
        let program = ProgramDefinition {
            args: vec!["/bin/sh".into(), "-c".into(), script.into()],
            env,
            stdout: StdioDef::File { path: out.clone(), on_close: FileOnCloseBehavior::None },
            stderr: StdioDef::Null,
            stdin: vec![],
            cwd: self.dir.clone(),
        };
        let desc = TaskBuildDescription {
            task_kind: std::borrow::Cow::Owned(TaskKind::ExternalProgram(TaskKindProgram { program, pin_mode: pin, task_dir: false })),
            submit_dir: std::borrow::Cow::Owned(self.dir.clone()),
            stream_path: None,
        };
        let body = tako::comm::serialize(&desc).unwrap();
        let msg = ToWorkerMessage::ComputeTasks(ComputeTasksMsg {
            tasks: vec![ComputeTaskSeparateData {
                shared_index: 0,
                id: TaskId::new(JobId::new(1), JobTaskId::new(task)),
                resource_rq_id: ResourceRqId::new(rq_id),
                resource_rq_variant: Some(ResourceVariantId::new(rv as u8)),
                instance_id: InstanceId::new(0),
                priority: Priority::new(0),
                node_list: vec![],
                entry: None,
            }],
            shared_data: vec![ComputeTaskSharedData { time_limit: None, body: body.into() }],
        });
        self.rec.borrow_mut().remove(&task);
        let mut end: Option<String> = None;
        let mut msgs = self.pump(Some(msg), 1);
        let mut waited = 0u64;
        loop {
            for m in msgs.drain(..) {
                if let FromWorkerMessage::TaskUpdate(us) = m {
                    for u in us {
                        match u {
                            WorkerTaskUpdate::RejectRequest { task_id, .. } if task_id.job_task_id().as_num() == task => return None,
                            WorkerTaskUpdate::Finished { task_id } if task_id.job_task_id().as_num() == task => end = Some("finished".into()),
                            WorkerTaskUpdate::Failed { task_id, .. } if task_id.job_task_id().as_num() == task => end = Some("failed".into()),
                            _ => {}
                        }
                    }
                }
            }
            let text = std::fs::read_to_string(&out).unwrap_or_default();
            let printed = text.lines().any(|l| l == "__END__");
            if end.is_some() || (hold && printed) {
                break;
            }
            waited += 2;
            if waited > 20_000 {
                end = Some("timeout".into());
                break;
            }
            msgs = self.pump(None, 2);
        }
        if hold && end.is_none() {
            self.held_tasks.push(task);
        }
        let held = self.rec.borrow().get(&task).cloned().unwrap_or_default();
        let text = std::fs::read_to_string(&out).unwrap_or_default();
        let mut vars = BTreeMap::new();
        let mut ts = None;
        for l in text.lines() {
            if let Some(v) = l.strip_prefix("__TASKSET=") {
                ts = Some(v.to_string());
            } else if let Some((k, v)) = l.split_once('=') {
                if KEYS.contains(&k) || k.starts_with("HQ_RESOURCE_VALUES_") {
                    vars.insert(k.to_string(), v.to_string());
                }
            }
        }
        Some((held, vars, ts, end.unwrap_or_else(|| "running".into())))
    }

    fn release(&mut self, task: u32) {
        if !self.held_tasks.contains(&task) {
            return;
        }
        self.held_tasks.retain(|t| *t != task);
        let id = TaskId::new(JobId::new(1), JobTaskId::new(task));
        self.pump(Some(ToWorkerMessage::CancelTasks(TaskIdsMsg { ids: vec![id] })), 1);
        for _ in 0..10_000 {
            if !self.vw.snapshot().running.iter().any(|r| r.task_id == id) {
                return;
            }
            self.pump(None, 2);
        }
    }
}

impl Drop for W {
    fn drop(&mut self) {
        let ts: Vec<u32> = self.held_tasks.clone();
        for t in ts {
            self.release(t);
        }
        let _ = std::fs::remove_dir_all(&self.dir);
    }
}

// ------------------------------------------------------------------------------------------------
// ops, monitors

fn pin_tok(p: &PinMode) -> &'static str {
    match p {
        PinMode::None => "n",
        PinMode::TaskSet => "t",
        PinMode::OpenMP => "o",
    }
}

fn parse_pin(s: &str) -> PinMode {
    match s {
        "n" => PinMode::None,
        "t" => PinMode::TaskSet,
        "o" => PinMode::OpenMP,
        _ => panic!("bad pin {s}"),
    }
}

fn norm(name: &str) -> String {
    name.bytes().map(|c| if c.is_ascii_alphanumeric() { c as char } else { '_' }).collect()
}

fn show_held(h: &[HeldRec]) -> String {
    if h.is_empty() {
        return "-".to_string();
    }
    h.iter()
        .map(|x| format!("{}|{}|{}|{}|{}", x.rid, x.name, if x.labels.is_empty() { "-".to_string() } else { x.labels.join("+") }, x.units, x.fractions))
        .collect::<Vec<_>>()
        .join(";")
}

/// C04 "the resource values it is told about are the ones it holds", judged on the environment of the real process
fn monitors(t: &mut Trace, held: &[HeldRec], vars: &BTreeMap<String, String>, ts: &Option<String>, pin: &PinMode, names_distinct: bool) {
    let told = |h: &HeldRec| h.labels.join(",");
    // every value variable carries the labels of one held allocation
    for (k, v) in vars {
        let is_values = k == "HQ_CPUS" || k == "CUDA_VISIBLE_DEVICES" || k == "ROCR_VISIBLE_DEVICES" || k.starts_with("HQ_RESOURCE_VALUES_");
        if is_values && !held.iter().any(|h| !h.labels.is_empty() && told(h) == *v) {
            t.mon_fail("c04.told", "values-not-held", &format!("{k}={v} but the task holds {}", show_held(held)));
        }
    }
    // every held allocation with indices is told under its own name
    if names_distinct {
        for h in held.iter().filter(|h| !h.labels.is_empty()) {
            let k = format!("HQ_RESOURCE_VALUES_{}", norm(&h.name));
            if vars.get(&k) != Some(&told(h)) {
                t.mon_fail("c04.told", "held-not-told", &format!("{k}={:?} but the task holds {}", vars.get(&k), told(h)));
            }
            let extra = match h.name.as_str() {
                "cpus" => Some("HQ_CPUS"),
                "gpus/nvidia" => Some("CUDA_VISIBLE_DEVICES"),
                "gpus/amd" => Some("ROCR_VISIBLE_DEVICES"),
                _ => None,
            };
            if let Some(k) = extra {
                if vars.get(k) != Some(&told(h)) {
                    t.mon_fail("c04.told", "held-not-told", &format!("{k}={:?} but the task holds {}", vars.get(k), told(h)));
                }
            }
        }
    }
    // pinning uses the CPUs the task holds
    let cpus = held.iter().find(|h| h.rid == 0 && !h.labels.is_empty()).map(told);
    match pin {
        PinMode::TaskSet => {
            if *ts != cpus {
                t.mon_fail("c04.told", "pinned-to-other-cpus", &format!("taskset -c {ts:?} but the task holds cpus {cpus:?}"));
            }
        }
        PinMode::OpenMP => {
            if let (Some(c), Some(p)) = (&cpus, vars.get("OMP_PLACES")) {
                if p != "P" && *p != format!("{{{c}}}") {
                    t.mon_fail("c04.told", "pinned-to-other-cpus", &format!("OMP_PLACES={p} but the task holds cpus {c}"));
                }
            }
        }
        PinMode::None => {}
    }
}

struct Act {
    line: String,
}

fn exec(t: &mut Trace, w: &mut W, toks: &[&str]) {
    match toks.first().copied() {
        Some("run") => {
            let task: u32 = toks[1].parse().unwrap();
            let es = parse_rq(toks[2]);
            let get = |k: &str| toks.iter().find_map(|x| x.strip_prefix(k)).unwrap_or("").to_string();
            let pin = parse_pin(&get("pin="));
            let nv: u32 = get("nv=").parse().unwrap();
            let rv: u32 = get("rv=").parse().unwrap();
            let preset_s = get("preset=");
            let preset: Vec<String> = if preset_s == "-" { vec![] } else { preset_s.split('+').map(|x| x.to_string()).collect() };
            let hold = get("hold=") == "1";
            match w.run(task, &es, pin.clone(), nv, rv, &preset, hold) {
                None => {
                    t.op(&format!("run {task} refused"));
                    t.out("refused");
                }
                Some((held, vars, ts, end)) => {
                    t.op(&format!("run {task} held={} pin={} nv={nv} rv={rv} preset={preset_s}", show_held(&held), pin_tok(&pin)));
                    let launched = end != "failed";
                    if launched {
                        let env = if vars.is_empty() { "-".to_string() } else { vars.iter().map(|(k, v)| format!("{k}={v}")).collect::<Vec<_>>().join(" ") };
                        t.out(&format!("env {env}"));
                        t.out(&format!("ts {}", ts.clone().unwrap_or_else(|| "-".into())));
                        let mut names: Vec<String> = held.iter().filter(|h| !h.labels.is_empty()).map(|h| norm(&h.name)).collect();
                        let n0 = names.len();
                        names.sort();
                        names.dedup();
                        monitors(t, &held, &vars, &ts, &pin, names.len() == n0);
                    }
                    t.out(&format!("end {}", if end == "running" { "finished" } else { &end }));
                    if end == "timeout" {
                        t.mon_fail("c04.told", "task-did-not-end", "the spawned process did not end within 20 s");
                    }
                }
            }
        }
        Some("release") => {
            let task: u32 = toks[1].parse().unwrap();
            w.release(task);
            t.op(&format!("release {task}"));
            t.out("ok");
        }
        _ => {}
    }
}

fn gen_acts(rng: &mut Rng, res: &[Res], n: u32) -> Vec<Act> {
    let mut acts = vec![];
    let mut held: Vec<u32> = vec![];
    for task in 0..n {
        if !held.is_empty() && rng.chance(1, 4) {
            let i = rng.below(held.len() as u64) as usize;
            acts.push(Act { line: format!("release {}", held.remove(i)) });
        }
        let es = gen_rq(rng, res);
        let pin = *rng.pick(&["n", "n", "t", "t", "o", "o"]);
        let nv = if rng.chance(1, 3) { 2 } else { 1 };
        let rv = if nv == 2 { rng.below(2) } else { 0 };
        let mut preset: Vec<&str> = vec![];
        for k in ["OMP_NUM_THREADS", "OMP_PLACES", "OMP_PROC_BIND"] {
            if rng.chance(1, 5) {
                preset.push(k);
            }
        }
        let hold = rng.chance(1, 3);
        if hold {
            held.push(task);
        }
        acts.push(Act {
            line: format!(
                "run {task} {} pin={pin} nv={nv} rv={rv} preset={} hold={}",
                show_rq(&es),
                if preset.is_empty() { "-".to_string() } else { preset.join("+") },
                if hold { 1 } else { 0 }
            ),
        });
    }
    acts
}

fn clean_env() {
    for k in KEYS {
        // the spawned processes inherit the harness's environment
        unsafe { std::env::remove_var(k) };
    }
    let drop: Vec<String> = std::env::vars().map(|(k, _)| k).filter(|k| k.starts_with("HQ_RESOURCE_VALUES_")).collect();
    for k in drop {
        unsafe { std::env::remove_var(k) };
    }
}

fn gen_main(args: &[String]) {
    let g = GenArgs::parse(args);
    clean_env();
    let mut t = Trace::new();
    for k in 0..g.cases {
        let sub = g.case_seed(k);
        let mut rng = Rng::new(sub);
        let res = gen_case(&mut rng);
        t.case(g.shard * 1_000_000 + k, sub, &format!("res={}", res.iter().map(show_res).collect::<Vec<_>>().join(";")));
        let mut w = W::new(&res);
        let n = if g.thorough { 10 } else { 6 };
        for a in gen_acts(&mut rng, &res, n) {
            t.line(&format!("act {}", a.line));
            let toks: Vec<&str> = a.line.split(' ').collect();
            exec(&mut t, &mut w, &toks);
        }
        drop(w);
        t.end();
    }
    t.flush();
}

fn replay_main() {
    clean_env();
    let mut t = Trace::new();
    let mut w: Option<W> = None;
    for line in std::io::stdin().lock().lines() {
        let line = line.unwrap();
        let toks: Vec<&str> = line.split(' ').filter(|x| !x.is_empty()).collect();
        match toks.first().copied() {
            Some("case") => {
                let res: Vec<Res> = toks.iter().find_map(|x| x.strip_prefix("res=")).map(|s| s.split(';').map(parse_res).collect()).unwrap_or_default();
                t.line(&toks.join(" "));
                w = Some(W::new(&res));
            }
            Some("act") => {
                t.line(&toks.join(" "));
                if let Some(w) = w.as_mut() {
                    exec(&mut t, w, &toks[1..]);
                }
            }
            Some("end") => {
                w = None;
                t.end();
            }
            _ => {}
        }
    }
    t.flush();
}

pub fn main(mode: &str, args: &[String]) {
    match mode {
        "gen" => gen_main(args),
        "replay" => replay_main(),
        _ => {
            eprintln!("usage: hqv env gen --seed S --shard i/n --cases N --tier T | hqv env replay");
            std::process::exit(2);
        }
    }
}
