//! Correspondence harness: drives the real HyperQueue code (built from /repo's current working tree
//! with `--cfg it4innovations_hyperqueue_verif`) and prints traces in the line protocol of
//! /verif/FRAMEWORK.md. One module per component; each exposes `pub fn main(mode: &str, args: &[String])`.
pub mod util;
pub mod world;
pub mod sim;
pub mod coreview;
pub mod monitors;
pub mod job;
pub mod alloc;
pub mod autoalloc;
pub mod stream;
pub mod auth;
pub mod journal;
pub mod core;
pub mod worker;
pub mod sched;
pub mod sysw;
pub mod env;
pub mod rpc;
pub mod authhq;
pub mod query;
