//! Correspondence harness: drives the real HyperQueue code (built from /repo's current working tree
//! with `--cfg it4innovations_hyperqueue_verif`) and prints traces in the line protocol of
//! /verif/FRAMEWORK.md. One module per component.
pub mod util;
