//! The simulated cluster ("world"): the REAL tako server reactor + scheduler (`VerifServer`), the REAL
//! HyperQueue job layer (`State`, `client_rpc_loop`, `UpstreamEventProcessor`, `EventStreamer`) and n REAL
//! worker state machines (`VerifWorker`), connected by harness-owned FIFO queues. The harness decides
//! which queue head is delivered next, when a running task ends (and how), when a worker is lost and when
//! the scheduler runs. Several *views* of one run are printed by the component modules (job, core, worker).
use std::cell::RefCell;
use std::collections::{BTreeMap, VecDeque};
use std::rc::Rc;
use std::sync::Arc;
use std::time::{Duration, Instant};

use futures::{SinkExt, StreamExt};
use hyperqueue::common::serverdir::ServerDir;
use hyperqueue::server::Senders;
use hyperqueue::server::client::client_rpc_loop;
use hyperqueue::server::event::Event;
use hyperqueue::server::event::journal::EventStreamMessage;
use hyperqueue::server::event::payload::EventPayload;
use hyperqueue::server::event::streamer::{EventFilter, EventStreamer};
use hyperqueue::server::job::JobTaskState;
use hyperqueue::server::state::StateRef;
use hyperqueue::transfer::messages::{FromClientMessage, ServerInfo, ToClientMessage};
use tako::events::EventProcessor;
use tako::gateway::LostWorkerReason;
use tako::internal::messages::common::TaskFailInfo;
use tako::internal::messages::worker::{FromWorkerMessage, ToWorkerMessage};
use tako::launcher::{StopReason, TaskBuildContext, TaskLaunchData, TaskLauncher, TaskResult};
use tako::server::SchedulerConfig;
use tako::task::SerializedTaskContext;
use tako::verif::server::{VerifSchedulerResult, VerifServer};
use tako::verif::worker::{VerifWorker, VerifWorkerSnapshot};
use tako::worker::{WorkerConfiguration, WorkerOverview};
use tako::{InstanceId, ResourceVariantId, TaskId, WorkerId};
use tokio::sync::{Notify, oneshot};

// ------------------------------------------------------------------------------------------------
// callbacks tako -> HQ, recorded in order together with what the HQ layer did in response

#[derive(Debug, Clone)]
pub enum CbKind {
    Started { task: TaskId, instance: u32, workers: Vec<u32>, rv: u32 },
    Finished { task: TaskId },
    Error { task: TaskId, consumers: Vec<TaskId>, ret: Vec<TaskId> },
    WorkerNew { worker: u32 },
    WorkerLost { worker: u32, running: Vec<TaskId>, reason: LostWorkerReason },
}

#[derive(Debug, Clone)]
pub struct Callback {
    pub kind: CbKind,
    /// events streamed by the HQ layer while the callback ran
    pub events: Vec<EventPayload>,
    /// job-layer snapshot right after the callback
    pub jobs: Vec<JobSnap>,
    pub panic: Option<String>,
}

#[derive(Debug, Clone, PartialEq, Eq)]
pub struct JobSnap {
    pub id: u32,
    pub open: bool,
    pub n_tasks: u32,
    /// running, finished, failed, canceled, aborted
    pub counters: [u32; 5],
    /// (job task id, state letter W R F X C A)
    pub tasks: Vec<(u32, char)>,
    /// `job_status` of the client library on the JobInfo of this job (or "!panic")
    pub status: &'static str,
    pub max_fails: Option<u32>,
}

pub fn status_name(s: hyperqueue::client::status::Status) -> &'static str {
    use hyperqueue::client::status::Status;
    match s {
        Status::Waiting => "waiting",
        Status::Running => "running",
        Status::Finished => "finished",
        Status::Failed => "failed",
        Status::Canceled => "canceled",
        Status::Aborted => "aborted",
        Status::Opened => "opened",
    }
}

pub fn snapshot_jobs(state_ref: &StateRef) -> Vec<JobSnap> {
    let state = state_ref.get();
    let mut jobs: Vec<JobSnap> = state
        .jobs()
        .map(|job| {
            let mut tasks: Vec<(u32, char)> = job
                .tasks
                .iter()
                .map(|(id, info)| {
                    (
                        id.as_num(),
                        match info.state {
                            JobTaskState::Waiting => 'W',
                            JobTaskState::Running { .. } => 'R',
                            JobTaskState::Finished { .. } => 'F',
                            JobTaskState::Failed { .. } => 'X',
                            JobTaskState::Canceled { .. } => 'C',
                            JobTaskState::Aborted { .. } => 'A',
                        },
                    )
                })
                .collect();
            tasks.sort();
            JobSnap {
                id: job.job_id.as_num(),
                open: job.is_open(),
                n_tasks: job.n_tasks(),
                counters: [
                    job.counters.n_running_tasks,
                    job.counters.n_finished_tasks,
                    job.counters.n_failed_tasks,
                    job.counters.n_canceled_tasks,
                    job.counters.n_aborted_tasks,
                ],
                tasks,
                max_fails: job.job_desc.max_fails,
                status: {
                    let info = job.make_job_info(false);
                    crate::util::catch(|| hyperqueue::client::status::job_status(&info)).map(status_name).unwrap_or("!panic")
                },
            }
        })
        .collect();
    jobs.sort_by_key(|j| j.id);
    jobs
}

type EventRx = Rc<RefCell<tokio::sync::mpsc::UnboundedReceiver<Event>>>;

pub fn drain_events(rx: &EventRx) -> Vec<EventPayload> {
    let mut out = Vec::new();
    let mut rx = rx.borrow_mut();
    while let Ok(e) = rx.try_recv() {
        out.push(e.payload);
    }
    out
}

struct RecordingProcessor {
    inner: Box<dyn EventProcessor>,
    log: Rc<RefCell<Vec<Callback>>>,
    events: EventRx,
    state_ref: StateRef,
}

impl RecordingProcessor {
    fn record(&mut self, kind: CbKind) {
        let events = drain_events(&self.events);
        let jobs = snapshot_jobs(&self.state_ref);
        self.log.borrow_mut().push(Callback { kind, events, jobs, panic: None });
    }
}

impl EventProcessor for RecordingProcessor {
    fn on_task_finished(&mut self, task_id: TaskId) {
        self.inner.on_task_finished(task_id);
        self.record(CbKind::Finished { task: task_id });
    }
    fn on_task_started(
        &mut self,
        task_id: TaskId,
        instance_id: InstanceId,
        worker_ids: &[WorkerId],
        rv_id: ResourceVariantId,
        context: SerializedTaskContext,
    ) {
        self.inner.on_task_started(task_id, instance_id, worker_ids, rv_id, context);
        self.record(CbKind::Started {
            task: task_id,
            instance: instance_id.as_num(),
            workers: worker_ids.iter().map(|w| w.as_num()).collect(),
            rv: rv_id.as_num() as u32,
        });
    }
    fn on_task_error(&mut self, task_id: TaskId, consumers_id: Vec<TaskId>, error_info: TaskFailInfo) -> Vec<TaskId> {
        let mut consumers = consumers_id.clone();
        consumers.sort();
        let ret = self.inner.on_task_error(task_id, consumers_id, error_info);
        self.record(CbKind::Error { task: task_id, consumers, ret: ret.clone() });
        ret
    }
    fn on_worker_new(&mut self, worker_id: WorkerId, configuration: &WorkerConfiguration) {
        self.inner.on_worker_new(worker_id, configuration);
        self.record(CbKind::WorkerNew { worker: worker_id.as_num() });
    }
    fn on_worker_lost(&mut self, worker_id: WorkerId, running_tasks: &[TaskId], reason: LostWorkerReason) {
        self.inner.on_worker_lost(worker_id, running_tasks, reason);
        self.record(CbKind::WorkerLost { worker: worker_id.as_num(), running: running_tasks.to_vec(), reason });
    }
    fn on_worker_overview(&mut self, overview: Box<WorkerOverview>) {
        self.inner.on_worker_overview(overview);
    }
    fn on_task_notify(&mut self, task_id: TaskId, worker_id: WorkerId, message: Box<[u8]>) {
        self.inner.on_task_notify(task_id, worker_id, message);
    }
}

// ------------------------------------------------------------------------------------------------
// launcher: the harness decides how and when tasks end

#[derive(Debug, Clone)]
pub struct Launch {
    pub worker: u32,
    pub task: TaskId,
    pub instance: u32,
    pub rv: u32,
    /// (resource id, [(index, group, fractions)], amount)
    pub allocation: Vec<(u32, Vec<(u32, u32, u64)>, u64)>,
    pub nodes: Vec<u32>,
    pub ok: bool,
}

#[derive(Debug, Clone, Copy, PartialEq, Eq)]
pub enum EndKind {
    Finished,
    Error,
}

#[derive(Default)]
pub struct LaunchCtl {
    pub log: Vec<Launch>,
    /// tasks whose next launch attempt fails
    pub fail_launch: std::collections::BTreeSet<TaskId>,
    /// end signal per running task (worker, task)
    pub running: BTreeMap<(u32, TaskId), oneshot::Sender<EndKind>>,
    /// tasks that received a stop signal and ended by it: (worker, task, was_timeout)
    pub stopped: Vec<(u32, TaskId, bool)>,
}

struct HarnessLauncher {
    worker: u32,
    ctl: Rc<RefCell<LaunchCtl>>,
}

#[derive(serde::Serialize)]
struct RunningTaskContextMirror {
    instance_id: InstanceId,
}

impl TaskLauncher for HarnessLauncher {
    fn build_task(&self, ctx: TaskBuildContext, stop_receiver: oneshot::Receiver<StopReason>) -> tako::Result<TaskLaunchData> {
        let task = ctx.task_id();
        let allocation = ctx
            .allocation()
            .resources
            .iter()
            .map(|ra| {
                (
                    ra.resource_id.as_num(),
                    ra.indices.iter().map(|i| (i.index.as_num(), i.group_idx, i.fractions as u64)).collect(),
                    ra.amount.total_fractions(),
                )
            })
            .collect();
        let mut ctl = self.ctl.borrow_mut();
        let fail = ctl.fail_launch.remove(&task);
        ctl.log.push(Launch {
            worker: self.worker,
            task,
            instance: ctx.instance_id().as_num(),
            rv: ctx.resource_variant().as_num() as u32,
            allocation,
            nodes: ctx.node_list().iter().map(|w| w.as_num()).collect(),
            ok: !fail,
        });
        if fail {
            return Err(tako::Error::GenericError("launch failed (harness)".to_string()));
        }
        let (tx, rx) = oneshot::channel::<EndKind>();
        ctl.running.insert((self.worker, task), tx);
        let ctl2 = self.ctl.clone();
        let worker = self.worker;
        let fut = async move {
            tokio::select! {
                r = rx => match r {
                    Ok(EndKind::Finished) => Ok(TaskResult::Finished),
                    Ok(EndKind::Error) => Err(tako::Error::GenericError("task failed (harness)".to_string())),
                    // the harness dropped the sender: worker is gone; never resolve
                    Err(_) => futures::future::pending().await,
                },
                reason = stop_receiver => {
                    match reason {
                        Ok(reason) => {
                            let timeout = matches!(reason, StopReason::Timeout);
                            let mut ctl = ctl2.borrow_mut();
                            ctl.running.remove(&(worker, task));
                            ctl.stopped.push((worker, task, timeout));
                            Ok(TaskResult::from(reason))
                        }
                        Err(_) => futures::future::pending().await,
                    }
                }
            }
        };
        let context = tako::comm::serialize(&RunningTaskContextMirror { instance_id: ctx.instance_id() }).unwrap();
        Ok(TaskLaunchData::new(Box::pin(fut), context))
    }
}

// ------------------------------------------------------------------------------------------------

pub struct SimWorker {
    pub id: u32,
    pub vw: VerifWorker,
    pub to_worker: VecDeque<ToWorkerMessage>,
    pub to_server: VecDeque<FromWorkerMessage>,
    pub config: WorkerConfiguration,
}

pub struct WorldConfig {
    pub prefill_reserve: u32,
    pub prefill_max: u32,
    pub journal: bool,
}

pub struct World {
    pub rt: tokio::runtime::Runtime,
    pub local: tokio::task::LocalSet,
    pub server: VerifServer,
    pub state_ref: StateRef,
    pub senders: Senders,
    /// what the job layer told the autoalloc service (worker connects / losses of workers started inside allocations)
    pub alloc_rx: RefCell<hyperqueue::verif::autoalloc::VerifNoticeReceiver>,
    pub callbacks: Rc<RefCell<Vec<Callback>>>,
    pub events: EventRx,
    pub launch: Rc<RefCell<LaunchCtl>>,
    pub workers: BTreeMap<u32, SimWorker>,
    client_tx: futures::channel::mpsc::UnboundedSender<tako::Result<FromClientMessage>>,
    client_rx: futures::channel::mpsc::UnboundedReceiver<ToClientMessage>,
    client_task: Option<tokio::task::JoinHandle<()>>,
    pub epoch: Instant,
    pub now_ms: u64,
    /// every message the server sent to a connected worker since the last `take_sent`
    pub sent: Vec<(u32, ToWorkerMessage)>,
    /// RetractResponse messages emitted by workers since the last drain: (worker, retracted ids)
    pub gave_back: Vec<(u32, Vec<TaskId>)>,
    /// with `WorldConfig::journal`: every event the real `EventStreamer` handed to the journal writer, in order
    pub journal: Rc<RefCell<Vec<Event>>>,
    /// journal flush requests are answered at once unless `hold` is set (a slow fsync): then they wait for `release_flushes`
    pub flush_gate: Rc<RefCell<FlushGate>>,
    /// prune requests that reached the journal thread: (number of events persisted before, live jobs, live workers)
    pub prunes: Rc<RefCell<Vec<(usize, Vec<u32>, Vec<u32>)>>>,
    _tmp: tempfile::TempDir,
}

#[derive(Default)]
pub struct FlushGate {
    pub hold: bool,
    pub pending: Vec<oneshot::Sender<()>>,
}

/// a second client connection that sent `Submit` with stream options (`hq submit --wait`)
pub struct WaitClient {
    _tx: futures::channel::mpsc::UnboundedSender<tako::Result<FromClientMessage>>,
    rx: futures::channel::mpsc::UnboundedReceiver<ToClientMessage>,
    pub received: Vec<ToClientMessage>,
}

impl World {
    pub fn new(cfg: &WorldConfig) -> World {
        let rt = tokio::runtime::Builder::new_current_thread().enable_all().start_paused(true).build().unwrap();
        let local = tokio::task::LocalSet::new();
        let uid = "verif-uid".to_string();
        let server = VerifServer::new(
            uid.clone(),
            WorkerId::new(0),
            SchedulerConfig {
                proactive_filling_reserve: cfg.prefill_reserve,
                proactive_filling_max: cfg.prefill_max,
                mip_time_limit: Duration::from_secs(20),
            },
        );
        let state_ref = StateRef::new(ServerInfo {
            server_uid: uid,
            client_host: "h".into(),
            worker_host: "h".into(),
            client_port: 1,
            worker_port: 2,
            version: "v".into(),
            pid: 0,
            start_date: chrono::Utc::now(),
            journal_path: None,
        });
        let journal: Rc<RefCell<Vec<Event>>> = Default::default();
        let flush_gate: Rc<RefCell<FlushGate>> = Default::default();
        let prunes: Rc<RefCell<Vec<(usize, Vec<u32>, Vec<u32>)>>> = Default::default();
        let gate = flush_gate.clone();
        let events = if cfg.journal {
            // journal sink: stands in for `start_event_streaming` (the writer task); records what would be persisted
            let (jtx, mut jrx) = tokio::sync::mpsc::unbounded_channel::<EventStreamMessage>();
            let sink = journal.clone();
            let prunes = prunes.clone();
            local.spawn_local(async move {
                while let Some(m) = jrx.recv().await {
                    match m {
                        EventStreamMessage::Event(e) => sink.borrow_mut().push(e),
                        EventStreamMessage::FlushJournal(cb) => {
                            let mut g = gate.borrow_mut();
                            if g.hold {
                                g.pending.push(cb);
                            } else {
                                let _ = cb.send(());
                            }
                        }
                        EventStreamMessage::PruneJournal { callback, live_jobs, live_workers } => {
                            // what `handle_prune_journal` asks the journal thread to keep
                            let mut lj: Vec<u32> = live_jobs.iter().map(|j| j.as_num()).collect();
                            let mut lw: Vec<u32> = live_workers.iter().map(|w| w.as_num()).collect();
                            lj.sort();
                            lw.sort();
                            prunes.borrow_mut().push((sink.borrow().len(), lj, lw));
                            let _ = callback.send(());
                        }
                        EventStreamMessage::ReplayJournal(_) => {}
                    }
                }
            });
            EventStreamer::new(Some(jtx))
        } else {
            EventStreamer::new(None)
        };
        let (etx, erx) = tokio::sync::mpsc::unbounded_channel::<Event>();
        events.register_listener(EventFilter::all_events(), etx);
        let erx: EventRx = Rc::new(RefCell::new(erx));
        let server_ref = server.server_ref();
        // the service the job layer notifies about workers of allocations; its messages are inspected by the simulator
        let (autoalloc, alloc_rx) = hyperqueue::verif::autoalloc::recording_service();
        let senders = Senders { server_control: server_ref, events, autoalloc };
        let callbacks = Rc::new(RefCell::new(Vec::new()));
        let inner = hyperqueue::verif::job::make_event_processor(state_ref.clone(), senders.clone());
        server.set_client_events(Box::new(RecordingProcessor {
            inner,
            log: callbacks.clone(),
            events: erx.clone(),
            state_ref: state_ref.clone(),
        }));
        // client connection
        let (client_tx, srv_rx) = futures::channel::mpsc::unbounded::<tako::Result<FromClientMessage>>();
        let (srv_tx, client_rx) = futures::channel::mpsc::unbounded::<ToClientMessage>();
        let tmp = tempfile::tempdir().unwrap();
        std::fs::create_dir_all(tmp.path().join("001")).unwrap();
        let server_dir = ServerDir::open(&tmp.path().join("001")).unwrap();
        let client_task;
        {
            let state_ref = state_ref.clone();
            let senders = senders.clone();
            client_task = local.spawn_local(async move {
                let tx = srv_tx.sink_map_err(|e| tako::Error::GenericError(e.to_string()));
                client_rpc_loop(tx, srv_rx, server_dir, state_ref, &senders, Arc::new(Notify::new())).await;
            });
        }
        World {
            rt,
            local,
            server,
            state_ref,
            senders,
            alloc_rx: RefCell::new(alloc_rx),
            callbacks,
            events: erx,
            launch: Default::default(),
            workers: Default::default(),
            client_tx,
            client_rx,
            client_task: Some(client_task),
            epoch: Instant::now(),
            now_ms: 0,
            sent: Vec::new(),
            gave_back: Vec::new(),
            journal,
            prunes,
            flush_gate,
            _tmp: tmp,
        }
    }

    pub fn now(&self) -> Instant {
        self.epoch + Duration::from_millis(self.now_ms)
    }

    /// lets spawned local tasks (client loop, task futures) run until they are all blocked
    pub fn settle(&mut self) {
        let local = &self.local;
        self.rt.block_on(local.run_until(async {
            for _ in 0..20 {
                tokio::task::yield_now().await;
            }
        }));
    }

    /// One client request through the real `client_rpc_loop`; returns its response.
    pub fn client(&mut self, msg: FromClientMessage) -> Option<ToClientMessage> {
        let local = &self.local;
        let tx = &mut self.client_tx;
        let rx = &mut self.client_rx;
        let r = self.rt.block_on(local.run_until(async {
            tx.send(Ok(msg)).await.ok()?;
            rx.next().await
        }));
        if r.is_none() {
            // the rpc loop ended: it panicked (the panic is re-raised here so that `catch` sees it)
            if let Some(h) = self.client_task.take() {
                let local = &self.local;
                if let Err(e) = self.rt.block_on(local.run_until(h)) {
                    if e.is_panic() {
                        std::panic::resume_unwind(e.into_panic());
                    }
                }
            }
            panic!("client rpc loop ended");
        }
        self.pump_server_messages();
        r
    }

    /// `hq submit --wait`: a new connection through the real `client_rpc_loop` sends `Submit` with stream options.
    /// Returns after the loop is blocked (on the journal flush if the gate holds, else streaming).
    pub fn wait_submit_begin(&mut self, msg: FromClientMessage) -> WaitClient {
        let (client_tx, srv_rx) = futures::channel::mpsc::unbounded::<tako::Result<FromClientMessage>>();
        let (srv_tx, client_rx) = futures::channel::mpsc::unbounded::<ToClientMessage>();
        let server_dir = ServerDir::open(&self._tmp.path().join("001")).unwrap();
        let state_ref = self.state_ref.clone();
        let senders = self.senders.clone();
        self.local.spawn_local(async move {
            let tx = srv_tx.sink_map_err(|e| tako::Error::GenericError(e.to_string()));
            client_rpc_loop(tx, srv_rx, server_dir, state_ref, &senders, Arc::new(Notify::new())).await;
        });
        client_tx.unbounded_send(Ok(msg)).unwrap();
        let mut c = WaitClient { _tx: client_tx, rx: client_rx, received: vec![] };
        self.wait_poll(&mut c);
        self.pump_server_messages();
        c
    }

    /// lets the waiting connection run and collects what it has been sent so far
    pub fn wait_poll(&mut self, c: &mut WaitClient) {
        self.settle();
        while let Ok(Some(m)) = c.rx.try_next() {
            c.received.push(m);
        }
    }

    /// the (slow) journal flush completes
    pub fn release_flushes(&mut self) {
        {
            let mut g = self.flush_gate.borrow_mut();
            g.hold = false;
            for cb in g.pending.drain(..) {
                let _ = cb.send(());
            }
        }
        self.settle();
    }

    /// moves everything the server queued for workers into the harness FIFO queues
    pub fn pump_server_messages(&mut self) {
        for (id, w) in self.workers.iter_mut() {
            for m in self.server.drain_messages(WorkerId::new(*id)) {
                self.sent.push((*id, clone_to_worker(&m)));
                w.to_worker.push_back(m);
            }
        }
    }

    pub fn pump_worker_messages(&mut self) {
        for w in self.workers.values_mut() {
            for m in w.vw.drain_messages() {
                if let FromWorkerMessage::RetractResponse(r) = &m {
                    self.gave_back.push((w.id, r.retracted.clone()));
                }
                w.to_server.push_back(m);
            }
        }
    }

    pub fn add_worker(&mut self, config: WorkerConfiguration) -> u32 {
        let now = self.now();
        let (wid, registration) = self.server.add_worker(config.clone(), now);
        let id = wid.as_num();
        let launcher = Box::new(HarnessLauncher { worker: id, ctl: self.launch.clone() });
        let vw = {
            let local = &self.local;
            let cfg2 = config.clone();
            self.rt.block_on(local.run_until(async move { VerifWorker::new(cfg2, registration, launcher) }))
        };
        self.workers.insert(id, SimWorker { id, vw, to_worker: Default::default(), to_server: Default::default(), config });
        self.pump_server_messages();
        id
    }

    pub fn lose_worker(&mut self, id: u32, reason: LostWorkerReason) {
        // the worker process is gone: its queues and its running tasks vanish with it
        if let Some(w) = self.workers.remove(&id) {
            let mut ctl = self.launch.borrow_mut();
            let keys: Vec<_> = ctl.running.keys().filter(|(wid, _)| *wid == id).cloned().collect();
            for k in keys {
                ctl.running.remove(&k);
            }
            drop(w);
        }
        self.server.lose_worker(WorkerId::new(id), reason);
        self.pump_server_messages();
    }

    pub fn schedule(&mut self) -> VerifSchedulerResult {
        let now = self.now();
        let r = self.server.run_scheduling(now);
        self.server.reset_scheduling_flag();
        self.pump_server_messages();
        r
    }

    /// deliver the head of the worker->server queue
    pub fn deliver_to_server(&mut self, id: u32) -> Option<String> {
        let msg = self.workers.get_mut(&id)?.to_server.pop_front()?;
        let desc = format!("{msg:?}");
        self.server.deliver(WorkerId::new(id), msg);
        self.pump_server_messages();
        Some(desc)
    }

    /// deliver the head of the server->worker queue
    pub fn deliver_to_worker(&mut self, id: u32) -> Option<ToWorkerMessage> {
        let w = self.workers.get_mut(&id)?;
        let msg = w.to_worker.pop_front()?;
        let copy = clone_to_worker(&msg);
        {
            let local = &self.local;
            let vw = &w.vw;
            self.rt.block_on(local.run_until(async move {
                vw.process(msg);
            }));
        }
        self.settle();
        self.pump_worker_messages();
        Some(copy)
    }

    pub fn end_task(&mut self, worker: u32, task: TaskId, kind: EndKind) -> bool {
        let tx = self.launch.borrow_mut().running.remove(&(worker, task));
        let Some(tx) = tx else { return false };
        let _ = tx.send(kind);
        self.settle();
        self.pump_worker_messages();
        true
    }

    pub fn advance_time(&mut self, ms: u64) {
        self.now_ms += ms;
        let local = &self.local;
        self.rt.block_on(local.run_until(async move {
            tokio::time::advance(Duration::from_millis(ms)).await;
            for _ in 0..20 {
                tokio::task::yield_now().await;
            }
        }));
        self.pump_worker_messages();
    }

    pub fn worker_snapshot(&self, id: u32) -> Option<VerifWorkerSnapshot> {
        self.workers.get(&id).map(|w| w.vw.snapshot())
    }

    pub fn take_sent(&mut self) -> Vec<(u32, ToWorkerMessage)> {
        std::mem::take(&mut self.sent)
    }

    pub fn take_callbacks(&mut self) -> Vec<Callback> {
        std::mem::take(&mut *self.callbacks.borrow_mut())
    }

    pub fn running_tasks(&self) -> Vec<(u32, TaskId)> {
        self.launch.borrow().running.keys().cloned().collect()
    }
}

pub fn clone_to_worker(m: &ToWorkerMessage) -> ToWorkerMessage {
    let data = tako::comm::serialize(m).unwrap();
    tako::comm::deserialize(&data).unwrap()
}
