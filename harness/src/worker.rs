//! Component `worker` (see /verif/FRAMEWORK.md).

pub fn main(mode: &str, _args: &[String]) {
    eprintln!("component worker: mode {mode} not implemented yet");
    std::process::exit(2);
}
