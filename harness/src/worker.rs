//! Component `worker` (M2): the worker-side task state machine, driven stand-alone.
//!
//! The REAL `WorkerState` (real allocator, real `process_worker_message`, real `handle_task_future`,
//! real `retract_check_process`) is fed scripted server->worker messages; the harness owns the task
//! launcher, so it decides whether a launch fails and when / how a running task ends. The allocator is
//! not part of the worker model: its answers (`try_allocate` ok/none + an allocation handle,
//! `is_enabled` booleans) and every hash-order choice (iteration order of `blocked_requests` and of
//! `prefilled_tasks`) are recorded in the `op` line.
//!
//! op lines
//!   compute <e>..      e = <task>:<inst>:<rq>:<rv|p>:<tl ms|->:<f0|f1>:<n|k<h>|->   (p = prefill entry,
//!                      f1 = the launcher refuses the task, n = allocator refused, k<h> = allocation h)
//!   retract <ids> | cancel <ids>
//!   end <task> <fin|err|can|tmo> <rq:rv:0/1,..|->    blocked set in iteration order + is_enabled answers
//!   fire <task>                                       the time limit of a running task elapses
//!   rcheck <rq ids in iteration order of prefilled_tasks|->
//!   newrq <id> <variants>   |   stop
//! out lines: `!panic <site>` | `launch t inst rv h ok|fail` | `rel <handles>` | `stop t cancel|timeout`
//!   | `upd <items>` | `retr <ids>` (messages, in send order) | `run …` `backlog <rq> …` `blocked …` (snapshot)
use std::cell::RefCell;
use std::collections::{BTreeMap, BTreeSet};
use std::rc::{Rc, Weak};
use std::time::Duration;

use tako::internal::messages::worker::{
    ComputeTaskSeparateData, ComputeTaskSharedData, ComputeTasksMsg, FromWorkerMessage, TaskIdsMsg, ToWorkerMessage,
    WorkerRegistrationResponse, WorkerTaskUpdate,
};
use tako::launcher::{StopReason, TaskBuildContext, TaskLaunchData, TaskLauncher, TaskResult};
use tako::resources::{
    Allocation, AllocationRequest, ResourceAllocRequest, ResourceAmount, ResourceDescriptor, ResourceDescriptorItem,
    ResourceDescriptorKind, ResourceRequest, ResourceRequestVariants, ResourceRqId, ResourceRqMap, ResourceWeight,
};
use tako::verif::alloc::{AllocatorSnapshot, PoolSnapshot};
use tako::verif::worker2::{VerifWorker2, VerifWorkerSnapshot2};
use tako::worker::{ServerLostPolicy, WorkerConfiguration};
use tako::{InstanceId, JobId, JobTaskId, Priority, ResourceVariantId, TaskId, WorkerId};
use tokio::sync::oneshot;

use crate::util::{GenArgs, Rng, Trace, list};

// ------------------------------------------------------------------------------------------------
// request classes

const KINDS: [&str; 8] = ["c1", "c2", "c3", "ca", "fc2", "g1", "sc2", "h1"];

fn kind_entries(kind: &str) -> Vec<ResourceAllocRequest> {
    let cpu = |request: AllocationRequest| ResourceAllocRequest { resource_id: 0.into(), request };
    let units = ResourceAmount::new_units;
    match kind {
        "c1" => vec![cpu(AllocationRequest::Compact(units(1)))],
        "c2" => vec![cpu(AllocationRequest::Compact(units(2)))],
        "c3" => vec![cpu(AllocationRequest::Compact(units(3)))],
        "ca" => vec![cpu(AllocationRequest::All)],
        "fc2" => vec![cpu(AllocationRequest::ForceCompact(units(2)))],
        "g1" => vec![
            cpu(AllocationRequest::Compact(units(1))),
            ResourceAllocRequest { resource_id: 1.into(), request: AllocationRequest::Compact(units(1)) },
        ],
        "sc2" => vec![cpu(AllocationRequest::Scatter(units(2)))],
        "h1" => vec![cpu(AllocationRequest::Compact(ResourceAmount::new(0, 5000)))],
        _ => panic!("unknown request kind {kind}"),
    }
}

/// one variant = (kind, min_time in seconds)
type Class = Vec<(String, u64)>;

fn class_to_rqv(c: &Class) -> ResourceRequestVariants {
    ResourceRequestVariants::new(
        c.iter()
            .map(|(k, mt)| {
                ResourceRequest::new(0, Duration::from_secs(*mt), kind_entries(k).into_iter().collect(), ResourceWeight::default())
            })
            .collect(),
    )
}

fn show_class(c: &Class) -> String {
    c.iter().map(|(k, mt)| format!("{k}@{mt}")).collect::<Vec<_>>().join("+")
}

fn parse_class(s: &str) -> Class {
    s.split('+')
        .map(|v| {
            let (k, mt) = v.split_once('@').expect("variant");
            (k.to_string(), mt.parse().expect("min_time"))
        })
        .collect()
}

// ------------------------------------------------------------------------------------------------
// launcher

#[derive(Clone, Copy, Debug, PartialEq, Eq)]
pub enum EndRes {
    Fin,
    Err,
    Can,
    Tmo,
}

impl EndRes {
    fn name(self) -> &'static str {
        match self {
            EndRes::Fin => "fin",
            EndRes::Err => "err",
            EndRes::Can => "can",
            EndRes::Tmo => "tmo",
        }
    }
    fn parse(s: &str) -> EndRes {
        match s {
            "fin" => EndRes::Fin,
            "err" => EndRes::Err,
            "can" => EndRes::Can,
            "tmo" => EndRes::Tmo,
            _ => panic!("bad task result {s}"),
        }
    }
}

struct Call {
    task: u32,
    inst: u32,
    rv: u32,
    ptr: usize,
    ok: bool,
    /// the task body the launcher was handed (the shared part of the ComputeTasks message it came in)
    body: Vec<u8>,
}

/// the body the harness puts into the shared data of a task: its time limit and a per-task tag, so that one message
/// carries several shared entries and every task can be recognised by what the launcher is handed
fn body_of(task: u32, tl_ms: Option<u64>) -> Vec<u8> {
    format!("{:?}/{}", tl_ms, task % 3).into_bytes()
}

struct RunCtl {
    end_tx: oneshot::Sender<EndRes>,
    stop_rx: oneshot::Receiver<StopReason>,
}

#[derive(Default)]
struct Ctl {
    calls: Vec<Call>,
    /// launch-fail flag of a task instance (task, instance), set by the compute entry that carried it
    fail: BTreeMap<(u32, u32), bool>,
    running: BTreeMap<u32, RunCtl>,
}

struct WLauncher {
    ctl: Rc<RefCell<Ctl>>,
}

fn tnum(t: TaskId) -> u32 {
    t.job_task_id().as_num()
}

fn tid(t: u32) -> TaskId {
    TaskId::new(JobId::new(1), JobTaskId::new(t))
}

impl TaskLauncher for WLauncher {
    fn build_task(&self, ctx: TaskBuildContext, stop_receiver: oneshot::Receiver<StopReason>) -> tako::Result<TaskLaunchData> {
        let task = tnum(ctx.task_id());
        let mut ctl = self.ctl.borrow_mut();
        let fail = ctl.fail.get(&(task, ctx.instance_id().as_num())).copied().unwrap_or(false);
        ctl.calls.push(Call {
            task,
            inst: ctx.instance_id().as_num(),
            rv: ctx.resource_variant().as_num() as u32,
            ptr: ctx.allocation() as *const Allocation as usize,
            ok: !fail,
            body: ctx.body().to_vec(),
        });
        if fail {
            return Err(tako::Error::GenericError("launch failed (harness)".to_string()));
        }
        let (tx, rx) = oneshot::channel::<EndRes>();
        ctl.running.insert(task, RunCtl { end_tx: tx, stop_rx: stop_receiver });
        let fut = async move {
            match rx.await {
                Ok(EndRes::Fin) => Ok(TaskResult::Finished),
                Ok(EndRes::Err) => Err(tako::Error::GenericError("task failed (harness)".to_string())),
                Ok(EndRes::Can) => Ok(TaskResult::Canceled),
                Ok(EndRes::Tmo) => Ok(TaskResult::Timeouted),
                Err(_) => futures::future::pending().await,
            }
        };
        Ok(TaskLaunchData::new(Box::pin(fut), Default::default()))
    }
}

// ------------------------------------------------------------------------------------------------
// panic capture that also sees panics swallowed by tokio's spawned-task wrapper

thread_local! { static PANIC: RefCell<Option<(String, String)>> = const { RefCell::new(None) }; }

fn catch_all<R>(f: impl FnOnce() -> R) -> Result<R, (String, String)> {
    let prev = std::panic::take_hook();
    std::panic::set_hook(Box::new(|info| {
        let loc = info.location().map(|l| format!("{}:{}", l.file(), l.line())).unwrap_or_default();
        let msg = if let Some(s) = info.payload().downcast_ref::<&str>() {
            s.to_string()
        } else if let Some(s) = info.payload().downcast_ref::<String>() {
            s.clone()
        } else {
            "panic".to_string()
        };
        PANIC.with(|c| {
            let mut c = c.borrow_mut();
            if c.is_none() {
                *c = Some((loc, msg));
            }
        });
    }));
    PANIC.with(|c| *c.borrow_mut() = None);
    let r = std::panic::catch_unwind(std::panic::AssertUnwindSafe(f));
    std::panic::set_hook(prev);
    let p = PANIC.with(|c| c.borrow_mut().take());
    match (r, p) {
        (Ok(v), None) => Ok(v),
        (_, Some(p)) => Err(p),
        (Err(_), None) => Err((String::new(), "panic".to_string())),
    }
}

fn panic_site(loc: &str, msg: &str) -> String {
    let file = loc.rsplit('/').next().unwrap_or(loc);
    let file = file.split(':').next().unwrap_or(file);
    if file == "stablemap.rs" && msg.contains("is_none") {
        "running-dup".to_string()
    } else if file == "stablemap.rs" {
        "running-missing".to_string()
    } else if file == "map.rs" && msg.contains("unwrap") {
        "rq-unknown".to_string()
    } else if file == "request.rs" && msg.contains("index out of bounds") {
        "rv-unknown".to_string()
    } else if file == "rpc.rs" && msg.contains("left == right") {
        "rq-id-mismatch".to_string()
    } else if file == "task_comm.rs" {
        "stop-receiver-gone".to_string()
    } else if file == "reactor.rs" && msg.contains("index out of bounds") {
        "shared-index".to_string()
    } else if file == "reactor.rs" && msg.contains("unwrap") {
        "running-missing".to_string()
    } else {
        format!("other:{}:{}", file, msg.split_whitespace().take(4).collect::<Vec<_>>().join("_"))
    }
}

// ------------------------------------------------------------------------------------------------
// operations

#[derive(Clone, Debug)]
pub struct Entry {
    task: u32,
    inst: u32,
    rq: u32,
    /// None = prefill entry
    rv: Option<u32>,
    tl_ms: Option<u64>,
    fail: bool,
}

#[derive(Clone, Debug)]
pub enum Op {
    Compute(Vec<Entry>),
    Retract(Vec<u32>),
    Cancel(Vec<u32>),
    End(u32, EndRes),
    Fire(u32),
    RCheck,
    NewRq(u32, Class),
    Stop,
}

pub struct Params {
    lim: Option<u64>,
    sockets: u32,
    per_socket: u32,
    gpus: u32,
    classes: Vec<Class>,
}

impl Params {
    fn show(&self) -> String {
        format!(
            "lim={} cpu={}x{} gpu={} rqs={}",
            self.lim.map(|l| l.to_string()).unwrap_or("-".into()),
            self.sockets,
            self.per_socket,
            self.gpus,
            self.classes.iter().map(show_class).collect::<Vec<_>>().join("/")
        )
    }
    fn parse(toks: &[&str]) -> Params {
        let mut p = Params { lim: None, sockets: 1, per_socket: 4, gpus: 0, classes: vec![] };
        for t in toks {
            if let Some(v) = t.strip_prefix("lim=") {
                p.lim = if v == "-" { None } else { Some(v.parse().unwrap()) };
            } else if let Some(v) = t.strip_prefix("cpu=") {
                let (a, b) = v.split_once('x').unwrap();
                p.sockets = a.parse().unwrap();
                p.per_socket = b.parse().unwrap();
            } else if let Some(v) = t.strip_prefix("gpu=") {
                p.gpus = v.parse().unwrap();
            } else if let Some(v) = t.strip_prefix("rqs=") {
                p.classes = if v == "-" { vec![] } else { v.split('/').map(parse_class).collect() };
            }
        }
        p
    }
}

struct Pinned {
    ptr: usize,
    weak: Weak<Allocation>,
    id: u64,
}

pub struct W {
    rt: tokio::runtime::Runtime,
    local: tokio::task::LocalSet,
    vw: VerifWorker2,
    ctl: Rc<RefCell<Ctl>>,
    lim: Option<u64>,
    classes: Vec<Class>,
    pinned: Vec<Pinned>,
    next_handle: u64,
    /// handle held by each running task after the last step
    held: BTreeMap<u32, u64>,
    now_ms: u64,
    /// time-limit deadline (tokio ms) of running tasks whose limit has not fired
    pub deadlines: BTreeMap<u32, u64>,
    /// time limit of every task instance (task, instance) as given by its compute entry
    tl_of: BTreeMap<(u32, u32), Option<u64>>,
    /// tasks that received a stop signal since they were launched
    pub signalled: BTreeMap<u32, &'static str>,
    total: Vec<u64>,
    pub panicked: bool,
    // monitors
    cancelled: BTreeMap<u32, bool>, // task -> was in the backlog when the cancel was processed
    retracted: BTreeSet<u32>,
    fired: BTreeSet<u32>,
    /// (task, instance) -> body the harness sent for it
    expect_body: BTreeMap<(u32, u32), Vec<u8>>,
    pub contract_ok: bool,
    pub stopped: bool,
}

fn free_amounts(s: &AllocatorSnapshot) -> Vec<u64> {
    s.pools
        .iter()
        .map(|p| match p {
            PoolSnapshot::Empty => 0,
            PoolSnapshot::Indices { free, fractions, .. } => free.len() as u64 * 10_000 + fractions.iter().map(|(_, f)| *f as u64).sum::<u64>(),
            PoolSnapshot::Groups { free, fractions, .. } => {
                free.iter().map(|g| g.len() as u64 * 10_000).sum::<u64>()
                    + fractions.iter().map(|g| g.iter().map(|(_, f)| *f as u64).sum::<u64>()).sum::<u64>()
            }
            PoolSnapshot::Sum { free, .. } => *free,
        })
        .collect()
}

impl W {
    pub fn new(p: &Params) -> W {
        let rt = tokio::runtime::Builder::new_current_thread().enable_all().start_paused(true).build().unwrap();
        let local = tokio::task::LocalSet::new();
        let mut items = vec![ResourceDescriptorItem {
            name: "cpus".to_string(),
            kind: ResourceDescriptorKind::regular_sockets(p.sockets, p.per_socket),
        }];
        if p.gpus > 0 {
            items.push(ResourceDescriptorItem::range("gpus", 0, p.gpus - 1));
        }
        let config = WorkerConfiguration {
            resources: ResourceDescriptor::new(items, Default::default()),
            listen_address: "1.1.1.1:123".to_string(),
            hostname: "test1".to_string(),
            group: "default".to_string(),
            work_dir: Default::default(),
            heartbeat_interval: Duration::from_millis(1000),
            overview_configuration: Default::default(),
            idle_timeout: None,
            time_limit: p.lim.map(Duration::from_secs),
            retract_check_interval: Duration::from_secs(30),
            on_server_lost: ServerLostPolicy::Stop,
            min_utilization: 0.0,
            extra: Default::default(),
        };
        let mut rq_map = ResourceRqMap::default();
        for c in &p.classes {
            rq_map.insert(class_to_rqv(c));
        }
        let registration = WorkerRegistrationResponse {
            worker_id: WorkerId::new(1),
            resource_names: vec!["cpus".to_string(), "gpus".to_string()],
            other_workers: vec![],
            server_idle_timeout: None,
            server_uid: "verif-uid".to_string(),
            worker_overview_interval_override: None,
            resource_rq_map: rq_map,
        };
        let ctl: Rc<RefCell<Ctl>> = Default::default();
        let launcher = Box::new(WLauncher { ctl: ctl.clone() });
        let vw = rt.block_on(local.run_until(async move { VerifWorker2::new(config, registration, launcher) }));
        let total = free_amounts(&vw.allocator_snapshot());
        W {
            rt,
            local,
            vw,
            ctl,
            lim: p.lim,
            classes: p.classes.clone(),
            pinned: vec![],
            next_handle: 1,
            held: Default::default(),
            now_ms: 0,
            deadlines: Default::default(),
            tl_of: Default::default(),
            signalled: Default::default(),
            total,
            panicked: false,
            cancelled: Default::default(),
            retracted: Default::default(),
            fired: Default::default(),
            expect_body: Default::default(),
            contract_ok: true,
            stopped: false,
        }
    }

    pub fn snapshot(&self) -> VerifWorkerSnapshot2 {
        self.vw.snapshot()
    }

    fn min_time(&self, rq: u32, rv: u32) -> Option<u64> {
        self.classes.get(rq as usize).and_then(|c| c.get(rv as usize)).map(|v| v.1)
    }

    fn hard_regime(&self, rq: u32, rv: u32) -> bool {
        match (self.lim, self.min_time(rq, rv)) {
            (Some(l), Some(mt)) => l < mt,
            _ => false,
        }
    }

    fn run_local(&mut self, msg: Option<ToWorkerMessage>, advance_ms: u64, spawn_check: bool) -> bool {
        let local = &self.local;
        let vw = &self.vw;
        self.rt.block_on(local.run_until(async move {
            let mut r = false;
            if let Some(m) = msg {
                r = vw.process(m);
            }
            if spawn_check {
                vw.spawn_retract_check(Duration::from_secs(10_000_000));
            }
            if advance_ms > 0 {
                tokio::time::advance(Duration::from_millis(advance_ms)).await;
            }
            for _ in 0..20 {
                tokio::task::yield_now().await;
            }
            r
        }))
    }

    /// Applies one operation to the real worker and prints `op`, `out`, `mon` lines.
    pub fn step(&mut self, op: &Op, tr: &mut Trace) {
        let pre = self.vw.snapshot();
        let held_before = self.held.clone();
        let backlog_before: BTreeSet<u32> = pre.prefilled.iter().flat_map(|(_, ts)| ts.iter().map(|(t, _)| tnum(*t))).collect();
        let running_before: BTreeSet<u32> = pre.running.iter().map(|r| tnum(r.task_id)).collect();
        let mut mons: Vec<(String, String, String)> = vec![];

        // ---- contract bookkeeping + monitor bookkeeping that precedes the step
        let mut pre_enabled_first: Option<bool> = None;
        // pre-state answers of the allocator, per entry (None for prefill / unregistered requests)
        let mut pre_enabled: Vec<Option<bool>> = vec![];
        match op {
            Op::Compute(es) => {
                for e in es {
                    self.cancelled.remove(&e.task);
                    self.retracted.remove(&e.task);
                    self.tl_of.insert((e.task, e.inst), e.tl_ms);
                    self.ctl.borrow_mut().fail.insert((e.task, e.inst), e.fail);
                    if backlog_before.contains(&e.task) || running_before.contains(&e.task) {
                        self.contract_ok = false;
                    }
                    if e.rq as usize >= pre.n_requests {
                        self.contract_ok = false;
                    }
                    if let Some(rv) = e.rv {
                        if self.min_time(e.rq, rv).is_none() {
                            self.contract_ok = false;
                        }
                    }
                }
                let mut seen = BTreeSet::new();
                for e in es {
                    if !seen.insert(e.task) {
                        self.contract_ok = false;
                    }
                }
                for e in es {
                    pre_enabled.push(e.rv.and_then(|rv| self.vw.is_enabled(ResourceRqId::new(e.rq), ResourceVariantId::new(rv as u8))));
                }
                if let Some(i) = es.iter().position(|e| e.rv.is_some()) {
                    pre_enabled_first = pre_enabled[i];
                }
            }
            Op::NewRq(id, _) => {
                if *id as usize != pre.n_requests {
                    self.contract_ok = false;
                }
            }
            _ => {}
        }

        // ---- execute
        let msg = match op {
            Op::Compute(es) => {
                let mut shared: Vec<ComputeTaskSharedData> = vec![];
                let mut shared_key: Vec<(Option<u64>, u32)> = vec![];
                let tasks = es
                    .iter()
                    .map(|e| {
                        self.expect_body.insert((e.task, e.inst), body_of(e.task, e.tl_ms));
                        let idx = match shared_key.iter().position(|k| *k == (e.tl_ms, e.task % 3)) {
                            Some(i) => i,
                            None => {
                                shared_key.push((e.tl_ms, e.task % 3));
                                shared.push(ComputeTaskSharedData { time_limit: e.tl_ms.map(Duration::from_millis), body: body_of(e.task, e.tl_ms).into() });
                                shared.len() - 1
                            }
                        };
                        ComputeTaskSeparateData {
                            shared_index: idx,
                            id: tid(e.task),
                            resource_rq_id: ResourceRqId::new(e.rq),
                            resource_rq_variant: e.rv.map(|v| ResourceVariantId::new(v as u8)),
                            instance_id: InstanceId::new(e.inst),
                            priority: Priority::new(0),
                            node_list: vec![],
                            entry: None,
                        }
                    })
                    .collect();
                Some(ToWorkerMessage::ComputeTasks(ComputeTasksMsg { tasks, shared_data: shared }))
            }
            Op::Retract(ids) => Some(ToWorkerMessage::RetractTasks(TaskIdsMsg { ids: ids.iter().map(|t| tid(*t)).collect() })),
            Op::Cancel(ids) => Some(ToWorkerMessage::CancelTasks(TaskIdsMsg { ids: ids.iter().map(|t| tid(*t)).collect() })),
            Op::NewRq(id, c) => Some(ToWorkerMessage::NewResourceRequest(ResourceRqId::new(*id), class_to_rqv(c))),
            Op::Stop => Some(ToWorkerMessage::Stop),
            Op::End(..) | Op::Fire(_) | Op::RCheck => None,
        };
        let mut advance = 0;
        let mut bad_op = false;
        match op {
            Op::End(t, res) => {
                let rc = self.ctl.borrow_mut().running.remove(t);
                match rc {
                    Some(rc) => {
                        let _ = rc.end_tx.send(*res);
                        // the stop receiver stays alive until the worker has removed the task
                        std::mem::forget(rc.stop_rx);
                    }
                    None => bad_op = true,
                }
            }
            Op::Fire(t) => match self.deadlines.get(t) {
                Some(d) => advance = d.saturating_sub(self.now_ms) + 2,
                None => bad_op = true,
            },
            _ => {}
        }
        let spawn_check = matches!(op, Op::RCheck);
        let result = if bad_op { Ok(false) } else { catch_all(|| self.run_local(msg, advance, spawn_check)) };
        self.now_ms += advance;

        // ---- observe
        let calls: Vec<Call> = std::mem::take(&mut self.ctl.borrow_mut().calls);
        let msgs = self.vw.drain_messages();
        let post = self.vw.snapshot();
        let mut stops: Vec<(u32, &'static str)> = vec![];
        {
            let mut ctl = self.ctl.borrow_mut();
            for (t, rc) in ctl.running.iter_mut() {
                if let Ok(reason) = rc.stop_rx.try_recv() {
                    stops.push((*t, match reason { StopReason::Cancel => "cancel", StopReason::Timeout => "timeout" }));
                }
            }
        }
        for (t, k) in &stops {
            self.signalled.insert(*t, k);
        }

        // ---- label allocation handles
        let assigned: BTreeSet<(u32, u32)> = match op {
            Op::Compute(es) => es.iter().filter(|e| e.rv.is_some()).map(|e| (e.task, e.inst)).collect(),
            _ => Default::default(),
        };
        let mut step_local: BTreeMap<usize, u64> = Default::default();
        let mut fresh: Vec<u64> = vec![];
        let mut called: BTreeSet<(u32, u32)> = Default::default();
        let mut call_handle: Vec<u64> = vec![];
        for c in &calls {
            let is_fresh = assigned.contains(&(c.task, c.inst)) && !called.contains(&(c.task, c.inst));
            called.insert((c.task, c.inst));
            let h = if is_fresh {
                let h = self.next_handle;
                self.next_handle += 1;
                step_local.insert(c.ptr, h);
                fresh.push(h);
                h
            } else if let Some(p) = self.pinned.iter().find(|p| p.ptr == c.ptr) {
                p.id
            } else if let Some(h) = step_local.get(&c.ptr) {
                *h
            } else {
                // an allocation the harness has never seen, not made for an assigned entry
                let h = self.next_handle;
                self.next_handle += 1;
                step_local.insert(c.ptr, h);
                fresh.push(h);
                mons.push(("c04.handover".into(), "unknown-allocation".into(), format!("launcher call for task {} with an allocation that no task held", c.task)));
                h
            };
            call_handle.push(h);
        }
        let mut held: BTreeMap<u32, u64> = Default::default();
        for r in &post.running {
            let ptr = r.allocation.as_ptr() as usize;
            let t = tnum(r.task_id);
            let h = if let Some(p) = self.pinned.iter().find(|p| p.ptr == ptr) {
                p.id
            } else if let Some(h) = step_local.get(&ptr) {
                self.pinned.push(Pinned { ptr, weak: r.allocation.clone(), id: *h });
                *h
            } else {
                let h = self.next_handle;
                self.next_handle += 1;
                self.pinned.push(Pinned { ptr, weak: r.allocation.clone(), id: h });
                mons.push(("c04.handover".into(), "unlaunched-running".into(), format!("task {t} runs with an allocation no launcher call saw")));
                h
            };
            held.insert(t, h);
        }

        // ---- allocator answers (compute)
        let mut answers: Vec<String> = vec![];
        if let Op::Compute(es) = op {
            let mut first_assigned = true;
            for (ei, e) in es.iter().enumerate() {
                let Some(rv) = e.rv else {
                    answers.push("-".into());
                    continue;
                };
                let ans = if let Some(i) = calls.iter().position(|c| c.task == e.task && c.inst == e.inst) {
                    format!("k{}", call_handle[i])
                } else if self.hard_regime(e.rq, rv) {
                    // nothing is launched in this regime: the answer is read from the allocator before the
                    // step (exact when no earlier entry of this message changed the allocator state; the
                    // generator only puts such an entry first among the assigned entries of a message)
                    match pre_enabled.get(ei).copied().flatten() {
                        Some(true) => {
                            let h = self.next_handle;
                            self.next_handle += 1;
                            fresh.push(h);
                            format!("k{h}")
                        }
                        _ => "n".to_string(),
                    }
                } else {
                    "n".to_string()
                };
                if first_assigned && result.is_ok() {
                    if let Some(b) = pre_enabled_first {
                        if b != ans.starts_with('k') {
                            mons.push(("c04.handover".into(), "alloc-answer-mismatch".into(),
                                format!("task {}: the allocator admitted the request = {b}, the worker behaved as if {}", e.task, !b)));
                        }
                    }
                }
                first_assigned = false;
                answers.push(ans);
            }
        }

        // ---- op line
        let op_line = match op {
            Op::Compute(es) => {
                let items: Vec<String> = es
                    .iter()
                    .zip(answers.iter())
                    .map(|(e, a)| {
                        format!(
                            "{}:{}:{}:{}:{}:f{}:{}",
                            e.task,
                            e.inst,
                            e.rq,
                            e.rv.map(|v| v.to_string()).unwrap_or("p".into()),
                            e.tl_ms.map(|v| v.to_string()).unwrap_or("-".into()),
                            e.fail as u8,
                            a
                        )
                    })
                    .collect();
                format!("compute {}", items.join(" "))
            }
            Op::Retract(ids) => format!("retract {}", list(ids)),
            Op::Cancel(ids) => format!("cancel {}", list(ids)),
            Op::End(t, r) => {
                let en: Vec<String> = pre
                    .blocked
                    .iter()
                    .map(|(rq, rv)| format!("{}:{}:{}", rq.as_num(), rv.as_num(), self.vw.is_enabled(*rq, *rv).unwrap_or(false) as u8))
                    .collect();
                format!("end {} {} {}", t, r.name(), list(en))
            }
            Op::Fire(t) => format!("fire {t}"),
            Op::RCheck => format!("rcheck {}", list(pre.prefilled.iter().map(|(rq, _)| rq.as_num()))),
            Op::NewRq(id, c) => format!("newrq {} {}", id, show_class(c)),
            Op::Stop => "stop".to_string(),
        };
        tr.op(&op_line);

        if bad_op {
            tr.out("!bad-op");
            return;
        }
        if let Err((loc, msg)) = &result {
            let site = panic_site(loc, msg);
            tr.out(&format!("!panic {site}"));
            if self.contract_ok {
                tr.mon_fail("c09.panic", &site, &format!("the worker panicked on a message sequence that satisfies the server contract: [{loc}] {msg}"));
            }
            self.panicked = true;
            return;
        }

        // ---- out lines
        for (c, h) in calls.iter().zip(call_handle.iter()) {
            tr.out(&format!("launch {} {} {} {} {}", c.task, c.inst, c.rv, h, if c.ok { "ok" } else { "fail" }));
        }
        let held_after: BTreeSet<u64> = held.values().copied().collect();
        let mut rel: BTreeSet<u64> = held_before.values().copied().collect();
        rel.extend(fresh.iter().copied());
        let rel: Vec<u64> = rel.into_iter().filter(|h| !held_after.contains(h)).collect();
        if !rel.is_empty() {
            tr.out(&format!("rel {}", list(&rel)));
        }
        stops.sort();
        for (t, k) in &stops {
            tr.out(&format!("stop {t} {k}"));
        }
        let mut upd_items: Vec<Vec<String>> = vec![];
        let mut retr_resp: Vec<Vec<u32>> = vec![];
        for m in &msgs {
            match m {
                FromWorkerMessage::TaskUpdate(us) => {
                    let items: Vec<String> = us
                        .iter()
                        .map(|u| match u {
                            WorkerTaskUpdate::Finished { task_id } => format!("fin:{}", tnum(*task_id)),
                            WorkerTaskUpdate::Failed { task_id, info } => {
                                let k = if info.message.contains("Time limit reached") {
                                    "timeout"
                                } else if info.message.contains("launch failed") {
                                    "launch"
                                } else if info.message.contains("task failed") {
                                    "error"
                                } else {
                                    "other"
                                };
                                format!("fail:{}:{k}", tnum(*task_id))
                            }
                            WorkerTaskUpdate::Running(m) => format!("run:{}:{}", tnum(m.task_id), m.rv_id.as_num()),
                            WorkerTaskUpdate::RunningPrefilled(m) => format!("runp:{}:{}", tnum(m.task_id), m.rv_id.as_num()),
                            WorkerTaskUpdate::RejectRequest { task_id, rv_id } => {
                                format!("rej:{}:{}", tnum(*task_id), rv_id.map(|v| v.as_num().to_string()).unwrap_or("n".into()))
                            }
                            WorkerTaskUpdate::EnableRequest { resource_rq_id, rv_id } => format!("en:{}:{}", resource_rq_id.as_num(), rv_id.as_num()),
                        })
                        .collect();
                    tr.out(&format!("upd {}", list(&items)));
                    upd_items.push(items);
                }
                FromWorkerMessage::RetractResponse(r) => {
                    let mut ids: Vec<u32> = r.retracted.iter().map(|t| tnum(*t)).collect();
                    ids.sort();
                    tr.out(&format!("retr {}", list(&ids)));
                    retr_resp.push(ids);
                }
                other => tr.out(&format!("msg {}", format!("{other:?}").split(['(', ' ', '{']).next().unwrap_or("?"))),
            }
        }
        if matches!(op, Op::Stop) {
            tr.out("stopped");
            self.stopped = true;
        }
        if !post.running.is_empty() {
            tr.out(&format!(
                "run {}",
                list(post.running.iter().map(|r| {
                    let t = tnum(r.task_id);
                    format!("{}:{}:{}:{}:{}", t, r.instance_id.as_num(), r.resource_rq_id.as_num(), r.rv_id.as_num(), held[&t])
                }))
            ));
        }
        let mut backlog: Vec<_> = post.prefilled.iter().filter(|(_, ts)| !ts.is_empty()).collect();
        backlog.sort_by_key(|(rq, _)| *rq);
        for (rq, ts) in backlog {
            tr.out(&format!("backlog {} {}", rq.as_num(), list(ts.iter().map(|(t, i)| format!("{}.{}", tnum(*t), i.as_num())))));
        }
        let mut blocked: Vec<(u32, u32)> = post.blocked.iter().map(|(rq, rv)| (rq.as_num(), rv.as_num() as u32)).collect();
        blocked.sort();
        if !blocked.is_empty() {
            tr.out(&format!("blocked {}", list(blocked.iter().map(|(a, b)| format!("{a}:{b}")))));
        }

        // ---- monitors on the observed behaviour of the real worker
        // c08.worker / c06.given_back
        for c in &calls {
            // (the clause is about message sequences of a correct server: a task id that is running and in
            // the backlog at the same time only exists after a ComputeTasks that violates the contract)
            if let Some(in_backlog) = self.cancelled.get(&c.task).filter(|_| self.contract_ok) {
                let sig = if *in_backlog { "cancel-ignores-backlog" } else { "launch-after-cancel" };
                mons.push(("c08.worker".into(), sig.into(), format!("task {} was launched (instance {}) after CancelTasks named it and no later ComputeTasks contained it", c.task, c.inst)));
            }
            if self.retracted.contains(&c.task) {
                mons.push(("c06.given_back".into(), "launch-after-retract".into(), format!("task {} was launched after the worker returned it in a RetractResponse", c.task)));
            }
        }
        if let Op::Cancel(ids) = op {
            for t in ids {
                self.cancelled.insert(*t, backlog_before.contains(t));
            }
        }
        for ids in &retr_resp {
            for t in ids {
                self.retracted.insert(*t);
            }
        }
        // c04.handover
        {
            let mut seen: BTreeMap<u64, u32> = Default::default();
            for (t, h) in &held {
                if let Some(t0) = seen.insert(*h, *t) {
                    mons.push(("c04.handover".into(), "shared-allocation".into(), format!("tasks {t0} and {t} run with the same allocation {h}")));
                }
            }
            let ended = match op { Op::End(t, _) => Some(*t), _ => None };
            let others: BTreeSet<u64> = held_before.iter().filter(|(t, _)| Some(**t) != ended).map(|(_, h)| *h).collect();
            for (c, h) in calls.iter().zip(call_handle.iter()) {
                if others.contains(h) {
                    mons.push(("c04.handover".into(), "handover-of-held".into(), format!("task {} was launched with allocation {h} that another running task holds", c.task)));
                }
                if c.ok && held.get(&c.task) != Some(h) {
                    mons.push(("c04.handover".into(), "launcher-allocation-differs".into(), format!("task {} was launched with allocation {h} but runs with {:?}", c.task, held.get(&c.task))));
                }
            }
            for p in &self.pinned {
                let alive = p.weak.strong_count() > 0;
                if alive != held_after.contains(&p.id) {
                    mons.push(("c04.handover".into(), if alive { "not-released" } else { "released-while-held" }.into(), format!("allocation {} alive={alive} held={}", p.id, !alive)));
                }
            }
            let free = free_amounts(&self.vw.allocator_snapshot());
            let mut used = vec![0u64; free.len()];
            for r in &post.running {
                for (res, amount) in &r.amounts {
                    if (*res as usize) < used.len() {
                        used[*res as usize] += amount;
                    }
                }
            }
            for i in 0..free.len() {
                if free[i] + used[i] != self.total[i] {
                    mons.push(("c04.handover".into(), "not-conserved".into(), format!("resource {i}: free {} + held by running tasks {} != total {}", free[i], used[i], self.total[i])));
                }
            }
        }
        // c01.ran: every launch is handed the data of ITS task (body and, through it, the time limit it was sent with)
        for c in &calls {
            if let Some(b) = self.expect_body.get(&(c.task, c.inst)) {
                if *b != c.body {
                    mons.push(("c01.ran".into(), "launched-with-data-of-another-task".into(), format!(
                        "task {} (instance {}) was launched with body `{}` but was sent with `{}`",
                        c.task, c.inst, String::from_utf8_lossy(&c.body), String::from_utf8_lossy(b))));
                }
            }
        }
        // c01.timeout
        match op {
            Op::Fire(t) => {
                self.fired.insert(*t);
                self.deadlines.remove(t);
                if !self.signalled.contains_key(t) {
                    mons.push(("c01.timeout".into(), "no-stop-signal".into(), format!("the time limit of task {t} elapsed but no stop signal was sent")));
                }
            }
            Op::End(t, res) => {
                let first = upd_items.first().and_then(|b| b.first()).cloned().unwrap_or_default();
                let expect = match res {
                    EndRes::Fin => Some(format!("fin:{t}")),
                    EndRes::Err => Some(format!("fail:{t}:error")),
                    EndRes::Tmo => Some(format!("fail:{t}:timeout")),
                    EndRes::Can => None,
                };
                match expect {
                    Some(x) if x != first => {
                        mons.push(("c01.timeout".into(), "result-not-reported".into(), format!("task {t} ended with {} but the first update is `{first}`", res.name())));
                    }
                    // a canceled task reports nothing about itself (`fail:t:launch` can only be a second copy of the
                    // id waiting in the backlog, i.e. a ComputeTasks outside the contract, and is not an outcome of
                    // the run that ended)
                    None if first == format!("fin:{t}") || first == format!("fail:{t}:error") || first == format!("fail:{t}:timeout") => {
                        mons.push(("c01.timeout".into(), "canceled-reported".into(), format!("task {t} ended canceled but `{first}` was reported")));
                    }
                    _ => {}
                }
                self.deadlines.remove(t);
                self.fired.remove(t);
                self.signalled.remove(t);
            }
            _ => {}
        }
        // c02.enable
        if let Op::End(..) = op {
            let reused = calls.iter().any(|c| c.ok);
            if !reused {
                let all_items: BTreeSet<String> = upd_items.iter().flatten().cloned().collect();
                let post_blocked: BTreeSet<(u32, u32)> = blocked.iter().copied().collect();
                for (rq, rv) in &pre.blocked {
                    let en = self.vw.is_enabled(*rq, *rv).unwrap_or(false);
                    let key = (rq.as_num(), rv.as_num() as u32);
                    let item = format!("en:{}:{}", key.0, key.1);
                    if en && (post_blocked.contains(&key) || !all_items.contains(&item)) {
                        mons.push(("c02.enable".into(), "not-unblocked".into(), format!("request {}:{} is admitted by the allocator after the task end but was not enabled", key.0, key.1)));
                    }
                    if !en && (!post_blocked.contains(&key) || all_items.contains(&item)) {
                        mons.push(("c02.enable".into(), "spurious-enable".into(), format!("request {}:{} is not admitted by the allocator but was enabled", key.0, key.1)));
                    }
                }
            }
        }
        for (c, s, d) in mons {
            tr.mon_fail(&c, &s, &d);
        }

        // ---- harness bookkeeping for the generator
        for c in &calls {
            if c.ok {
                self.signalled.remove(&c.task);
                self.fired.remove(&c.task);
                if let Some(Some(tl)) = self.tl_of.get(&(c.task, c.inst)) {
                    self.deadlines.insert(c.task, self.now_ms + tl);
                } else {
                    self.deadlines.remove(&c.task);
                }
            }
        }
        if let Op::NewRq(_, c) = op {
            self.classes.push(c.clone());
        }
        self.held = held;
    }
}

// ------------------------------------------------------------------------------------------------
// generator

struct Gen {
    rng: Rng,
    next_task: u32,
    /// tasks the worker no longer holds (ended / rejected / retracted), with their last instance
    gone: BTreeMap<u32, u32>,
    inst: BTreeMap<u32, u32>,
    malformed: bool,
}

fn gen_params(rng: &mut Rng) -> Params {
    let lim = if rng.chance(1, 3) { Some(3600) } else { None };
    let (sockets, per_socket) = *rng.pick(&[(1u32, 2u32), (2, 2), (1, 4), (2, 1), (1, 1), (2, 3)]);
    let gpus = rng.below(3) as u32;
    let ncls = rng.range(1, 3);
    let mut classes = vec![];
    for _ in 0..ncls {
        classes.push(gen_class(rng, lim.is_some(), gpus > 0, sockets * per_socket));
    }
    Params { lim, sockets, per_socket, gpus, classes }
}

fn gen_class(rng: &mut Rng, lim: bool, gpus: bool, ncpus: u32) -> Class {
    let nv = if rng.chance(1, 4) { 2 } else { 1 };
    (0..nv)
        .map(|_| {
            let mut k;
            loop {
                k = *rng.pick(&KINDS);
                if k == "g1" && !gpus {
                    continue;
                }
                // mostly requests the worker can run at all
                if (k == "c3" && ncpus < 3) || ((k == "c2" || k == "fc2" || k == "sc2") && ncpus < 2) {
                    if rng.chance(9, 10) {
                        continue;
                    }
                }
                break;
            }
            let mt = match rng.below(10) {
                0 | 1 => 10,
                2 if lim => 7200,
                _ => 0,
            };
            (k.to_string(), mt)
        })
        .collect()
}

impl Gen {
    fn sample_ids(&mut self, w: &W, snap: &VerifWorkerSnapshot2) -> Vec<u32> {
        let backlog: Vec<u32> = snap.prefilled.iter().flat_map(|(_, ts)| ts.iter().map(|(t, _)| tnum(*t))).collect();
        let running: Vec<u32> = snap.running.iter().map(|r| tnum(r.task_id)).collect();
        let gone: Vec<u32> = self.gone.keys().copied().collect();
        let _ = w;
        let n = self.rng.weighted(&[1, 6, 4, 2]);
        let mut ids = vec![];
        for _ in 0..n {
            let src = self.rng.weighted(&[6, 4, 1, 1]);
            let t = match src {
                0 if !backlog.is_empty() => *self.rng.pick(&backlog),
                1 if !running.is_empty() => *self.rng.pick(&running),
                2 if !gone.is_empty() => *self.rng.pick(&gone),
                _ => 1000 + self.rng.below(5) as u32,
            };
            if !ids.contains(&t) || self.rng.chance(1, 10) {
                ids.push(t);
            }
        }
        ids
    }

    fn gen_compute(&mut self, w: &W, snap: &VerifWorkerSnapshot2) -> Op {
        let n = self.rng.weighted(&[0, 5, 4, 2, 1]);
        let held: BTreeSet<u32> = snap
            .running
            .iter()
            .map(|r| tnum(r.task_id))
            .chain(snap.prefilled.iter().flat_map(|(_, ts)| ts.iter().map(|(t, _)| tnum(*t))))
            .collect();
        let nreq = snap.n_requests as u32;
        let mut es: Vec<Entry> = vec![];
        let mut any_assigned = false;
        for _ in 0..n {
            let gone: Vec<u32> = self.gone.keys().copied().filter(|t| !es.iter().any(|e| e.task == *t)).collect();
            let task = if self.malformed && !held.is_empty() && self.rng.chance(1, 12) {
                *self.rng.pick(&held.iter().copied().collect::<Vec<_>>())
            } else if !gone.is_empty() && self.rng.chance(1, 6) {
                let t = *self.rng.pick(&gone);
                self.gone.remove(&t);
                t
            } else {
                self.next_task += 1;
                self.next_task
            };
            let inst = {
                let i = self.inst.entry(task).or_insert(0);
                let v = *i;
                *i += 1;
                v
            };
            if nreq == 0 {
                break;
            }
            let mut rq = self.rng.below(nreq as u64) as u32;
            let mut assigned = self.rng.chance(11, 20);
            let mut rv = 0;
            if assigned {
                let nv = w.classes.get(rq as usize).map(|c| c.len()).unwrap_or(1) as u64;
                rv = self.rng.below(nv) as u32;
                if w.hard_regime(rq, rv) && (any_assigned || self.rng.chance(1, 2)) {
                    assigned = false;
                }
            }
            if self.malformed && self.rng.chance(1, 25) {
                if assigned && self.rng.chance(1, 2) {
                    rv += 3;
                } else {
                    rq = nreq + self.rng.below(2) as u32;
                }
            }
            let tl_ms = match self.rng.below(20) {
                0..=4 => Some(self.rng.range(1000, 100_000)),
                5 => Some(1_000_000_000),
                _ => None,
            };
            let fail = self.rng.chance(1, 12);
            any_assigned |= assigned;
            es.push(Entry { task, inst, rq, rv: if assigned { Some(rv) } else { None }, tl_ms, fail });
        }
        Op::Compute(es)
    }

    fn next_op(&mut self, w: &W) -> Op {
        let snap = w.snapshot();
        let nrun = snap.running.len() as u64;
        let fire = {
            let mut ds: Vec<(u64, u32)> = w.deadlines.iter().map(|(t, d)| (*d, *t)).collect();
            ds.sort();
            match ds.as_slice() {
                [] => None,
                [(d, t)] if *d < 500_000_000 => Some(*t),
                [(d0, t), (d1, _), ..] if d0 + 10 < *d1 && *d0 < 500_000_000 => Some(*t),
                _ => None,
            }
        };
        let weights = [
            30,
            8,
            10,
            if nrun > 0 { 22 + 4 * nrun } else { 0 },
            if fire.is_some() { 6 } else { 0 },
            4,
            2,
        ];
        match self.rng.weighted(&weights) {
            0 => self.gen_compute(w, &snap),
            1 => Op::Retract(self.sample_ids(w, &snap)),
            2 => Op::Cancel(self.sample_ids(w, &snap)),
            3 => {
                let r = self.rng.pick(&snap.running);
                let t = tnum(r.task_id);
                let res = match w.signalled.get(&t) {
                    Some(&"timeout") => [EndRes::Tmo, EndRes::Tmo, EndRes::Tmo, EndRes::Fin, EndRes::Err, EndRes::Can][self.rng.below(6) as usize],
                    Some(_) => [EndRes::Can, EndRes::Can, EndRes::Can, EndRes::Fin, EndRes::Err, EndRes::Tmo][self.rng.below(6) as usize],
                    None => [EndRes::Fin, EndRes::Fin, EndRes::Fin, EndRes::Fin, EndRes::Err, EndRes::Err, EndRes::Can, EndRes::Tmo][self.rng.below(8) as usize],
                };
                Op::End(t, res)
            }
            4 => Op::Fire(fire.unwrap()),
            5 => Op::RCheck,
            _ => {
                let id = snap.n_requests as u32 + if self.malformed && self.rng.chance(1, 6) { 1 } else { 0 };
                let c = gen_class(&mut self.rng, w.lim.is_some(), true, 4);
                Op::NewRq(id, c)
            }
        }
    }

    /// keeps the generator's idea of which ids the worker gave back
    fn observe(&mut self, before: &VerifWorkerSnapshot2, after: &VerifWorkerSnapshot2) {
        let held = |s: &VerifWorkerSnapshot2| -> BTreeMap<u32, u32> {
            s.running
                .iter()
                .map(|r| (tnum(r.task_id), r.instance_id.as_num()))
                .chain(s.prefilled.iter().flat_map(|(_, ts)| ts.iter().map(|(t, i)| (tnum(*t), i.as_num()))))
                .collect()
        };
        let (b, a) = (held(before), held(after));
        for (t, i) in b {
            if !a.contains_key(&t) {
                self.gone.insert(t, i);
            }
        }
        for t in a.keys() {
            self.gone.remove(t);
        }
    }
}

pub fn run_case(tr: &mut Trace, idx: u64, subseed: u64, thorough: bool) {
    let mut rng = Rng::new(subseed);
    let params = gen_params(&mut rng);
    let malformed = rng.chance(1, 8);
    let nops = if thorough { rng.range(40, 120) } else { rng.range(25, 70) };
    tr.case(idx, subseed, &format!("{} mal={} n={}", params.show(), malformed as u8, nops));
    let mut w = W::new(&params);
    let mut g = Gen { rng, next_task: 0, gone: Default::default(), inst: Default::default(), malformed };
    let with_stop = g.rng.chance(1, 10);
    for _ in 0..nops {
        if w.panicked {
            break;
        }
        let op = g.next_op(&w);
        let before = w.snapshot();
        if let Op::Compute(es) = &op {
            // entries that are rejected are given back at once
            for e in es {
                g.gone.insert(e.task, e.inst);
            }
        }
        w.step(&op, tr);
        if w.panicked {
            break;
        }
        let after = w.snapshot();
        g.observe(&before, &after);
    }
    // drain: end every running task so that every handover / release / enable happens
    let mut guard = 0;
    while !w.panicked && guard < 200 {
        let snap = w.snapshot();
        let Some(r) = snap.running.first() else { break };
        let t = tnum(r.task_id);
        w.step(&Op::End(t, if g.rng.chance(3, 4) { EndRes::Fin } else { EndRes::Err }), tr);
        guard += 1;
    }
    if !w.panicked && with_stop {
        w.step(&Op::Stop, tr);
    }
    tr.end();
    // leak the runtime's pending task futures quietly
    drop(w);
}

// ------------------------------------------------------------------------------------------------
// replay

fn parse_u32_list(s: &str) -> Vec<u32> {
    if s == "-" { vec![] } else { s.split(',').map(|x| x.parse().unwrap()).collect() }
}

fn parse_op(toks: &[&str]) -> Option<Op> {
    match toks {
        ["compute", es @ ..] => {
            let mut v = vec![];
            for e in es {
                let f: Vec<&str> = e.split(':').collect();
                if f.len() < 6 {
                    return None;
                }
                v.push(Entry {
                    task: f[0].parse().ok()?,
                    inst: f[1].parse().ok()?,
                    rq: f[2].parse().ok()?,
                    rv: if f[3] == "p" { None } else { Some(f[3].parse().ok()?) },
                    tl_ms: if f[4] == "-" { None } else { Some(f[4].parse().ok()?) },
                    fail: f[5] == "f1",
                });
            }
            Some(Op::Compute(v))
        }
        ["retract", ids] => Some(Op::Retract(parse_u32_list(ids))),
        ["cancel", ids] => Some(Op::Cancel(parse_u32_list(ids))),
        ["end", t, r, ..] => Some(Op::End(t.parse().ok()?, EndRes::parse(r))),
        ["fire", t] => Some(Op::Fire(t.parse().ok()?)),
        ["rcheck", ..] => Some(Op::RCheck),
        ["newrq", id, c] => Some(Op::NewRq(id.parse().ok()?, parse_class(c))),
        ["stop"] => Some(Op::Stop),
        _ => None,
    }
}

pub fn replay(tr: &mut Trace) {
    use std::io::BufRead;
    let stdin = std::io::stdin();
    let mut cur: Option<W> = None;
    for line in stdin.lock().lines() {
        let line = line.unwrap();
        let toks: Vec<&str> = line.split_whitespace().collect();
        match toks.as_slice() {
            ["case", rest @ ..] => {
                if cur.take().is_some() {
                    tr.end();
                }
                tr.line(&line);
                let params = Params::parse(rest);
                cur = Some(W::new(&params));
            }
            ["op", rest @ ..] => {
                if let Some(w) = cur.as_mut() {
                    if w.panicked {
                        continue;
                    }
                    match parse_op(rest) {
                        Some(op) => w.step(&op, tr),
                        None => {
                            tr.line(&line);
                            tr.out("!bad-op");
                        }
                    }
                }
            }
            ["end"] => {
                if cur.take().is_some() {
                    tr.end();
                }
            }
            _ => {}
        }
    }
    if cur.take().is_some() {
        tr.end();
    }
}

pub fn main(mode: &str, args: &[String]) {
    let a = GenArgs::parse(args);
    let mut tr = Trace::new();
    match mode {
        "gen" => {
            for k in 0..a.cases {
                let subseed = a.case_seed(k);
                run_case(&mut tr, a.shard * 1_000_000 + k, subseed, a.thorough);
            }
        }
        "case" => {
            let subseed: u64 = args[0].parse().unwrap();
            run_case(&mut tr, 0, subseed, args.get(1).map(|s| s == "thorough").unwrap_or(false));
        }
        "replay" => replay(&mut tr),
        _ => {
            eprintln!("component worker: unknown mode {mode}");
            std::process::exit(2);
        }
    }
    tr.flush();
}
