//! hqv <component> gen --seed S --shard i/n --cases N --tier quick|thorough [component flags]
//! hqv <component> replay            (trace with `case`/`op` lines on stdin, where the component supports it)
use hq_verif_harness as h;

fn main() {
    let args: Vec<String> = std::env::args().skip(1).collect();
    if args.len() < 2 {
        eprintln!("usage: hqv <component> gen|replay …");
        std::process::exit(2);
    }
    let (comp, mode, rest) = (args[0].as_str(), args[1].as_str(), &args[2..]);
    match comp {
        "job" => h::job::main(mode, rest),
        "alloc" => h::alloc::main(mode, rest),
        "autoalloc" => h::autoalloc::main(mode, rest),
        "stream" => h::stream::main(mode, rest),
        "auth" => h::auth::main(mode, rest),
        "journal" => h::journal::main(mode, rest),
        "core" => h::core::main(mode, rest),
        "worker" => h::worker::main(mode, rest),
        "sched" => h::sched::main(mode, rest),
        "sysw" => h::sysw::main(mode, rest),
        "env" => h::env::main(mode, rest),
        "rpc" => h::rpc::main(mode, rest),
        "authhq" => h::authhq::main(mode, rest),
        "query" => h::query::main(mode, rest),
        _ => {
            eprintln!("unknown component {comp}");
            std::process::exit(2);
        }
    }
}
