//! hqv <component> gen --seed S --shard i/n --cases N --tier quick|thorough [component flags]
//! hqv <component> replay            (trace with `case`/`op` lines on stdin, where the component supports it)
use hq_verif_harness as h;

fn main() {
    let args: Vec<String> = std::env::args().skip(1).collect();
    if args.len() < 2 {
        eprintln!("usage: hqv <component> gen|replay …");
        std::process::exit(2);
    }
    let (comp, mode, rest) = (args[0].as_str(), args[1].as_str(), &args[2..]);
    let _ = (mode, rest);
    match comp {
        _ => {
            let _ = h::util::Rng::new(0);
            eprintln!("unknown component {comp}");
            std::process::exit(2);
        }
    }
}
