//! One-off probe: do single-node tasks starve behind a higher-priority multi-node task that no group can host?
use hq_verif_harness::sim::Sim;
fn main() {
    let prio_mn: i32 = std::env::args().nth(1).map(|s| s.parse().unwrap()).unwrap_or(2);
    let mut sim = Sim::new(1);
    sim.probe_mn(prio_mn);
}
