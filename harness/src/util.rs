//! Shared helpers: deterministic PRNG, argument parsing, trace writer, panic capture.
use std::fmt::Write as _;
use std::io::Write;

/// SplitMix64: every random choice of a run derives from one seed.
#[derive(Clone)]
pub struct Rng(pub u64);

impl Rng {
    pub fn new(seed: u64) -> Self {
        Rng(seed.wrapping_mul(0x9E3779B97F4A7C15).wrapping_add(0xD1B54A32D192ED03))
    }
    pub fn next_u64(&mut self) -> u64 {
        self.0 = self.0.wrapping_add(0x9E3779B97F4A7C15);
        let mut z = self.0;
        z = (z ^ (z >> 30)).wrapping_mul(0xBF58476D1CE4E5B9);
        z = (z ^ (z >> 27)).wrapping_mul(0x94D049BB133111EB);
        z ^ (z >> 31)
    }
    /// uniform in 0..n (n > 0)
    pub fn below(&mut self, n: u64) -> u64 {
        self.next_u64() % n
    }
    pub fn range(&mut self, lo: u64, hi_incl: u64) -> u64 {
        lo + self.below(hi_incl - lo + 1)
    }
    pub fn chance(&mut self, num: u64, den: u64) -> bool {
        self.below(den) < num
    }
    pub fn pick<'a, T>(&mut self, xs: &'a [T]) -> &'a T {
        &xs[self.below(xs.len() as u64) as usize]
    }
    /// index chosen according to integer weights
    pub fn weighted(&mut self, weights: &[u64]) -> usize {
        let total: u64 = weights.iter().sum();
        let mut x = self.below(total.max(1));
        for (i, w) in weights.iter().enumerate() {
            if x < *w {
                return i;
            }
            x -= *w;
        }
        weights.len() - 1
    }
    pub fn fork(&mut self) -> Rng {
        Rng::new(self.next_u64())
    }
}

#[derive(Debug, Clone)]
pub struct GenArgs {
    pub seed: u64,
    pub shard: u64,
    pub nshards: u64,
    pub cases: u64,
    pub thorough: bool,
    pub extra: Vec<String>,
}

impl GenArgs {
    pub fn parse(args: &[String]) -> GenArgs {
        let mut a = GenArgs { seed: 0, shard: 0, nshards: 1, cases: 10, thorough: false, extra: vec![] };
        let mut i = 0;
        while i < args.len() {
            match args[i].as_str() {
                "--seed" => { a.seed = args[i + 1].parse().unwrap(); i += 1; }
                "--shard" => {
                    let (x, y) = args[i + 1].split_once('/').unwrap();
                    a.shard = x.parse().unwrap();
                    a.nshards = y.parse().unwrap();
                    i += 1;
                }
                "--cases" => { a.cases = args[i + 1].parse().unwrap(); i += 1; }
                "--tier" => { a.thorough = args[i + 1] == "thorough"; i += 1; }
                other => a.extra.push(other.to_string()),
            }
            i += 1;
        }
        a
    }
    /// sub-seed of the k-th case of this shard: a function of (seed, shard, k) only
    pub fn case_seed(&self, k: u64) -> u64 {
        let mut r = Rng::new(self.seed ^ 0xC0FFEE);
        let base = r.next_u64();
        Rng::new(base ^ (self.shard.wrapping_mul(1_000_003) + k)).next_u64() >> 1
    }
    pub fn has(&self, flag: &str) -> bool {
        self.extra.iter().any(|x| x == flag)
    }
    pub fn value(&self, flag: &str) -> Option<&str> {
        self.extra.iter().position(|x| x == flag).and_then(|i| self.extra.get(i + 1)).map(|s| s.as_str())
    }
}

/// Trace writer (stdout, buffered).
pub struct Trace {
    out: std::io::BufWriter<std::io::Stdout>,
}

impl Default for Trace {
    fn default() -> Self { Self::new() }
}

impl Trace {
    pub fn new() -> Self {
        Trace { out: std::io::BufWriter::new(std::io::stdout()) }
    }
    pub fn line(&mut self, s: &str) {
        debug_assert!(!s.contains('\n'));
        writeln!(self.out, "{s}").unwrap();
    }
    pub fn case(&mut self, idx: u64, subseed: u64, params: &str) {
        self.line(&format!("case {idx} {subseed} {params}").trim_end().to_string());
    }
    pub fn op(&mut self, s: &str) { self.line(&format!("op {s}")); }
    pub fn out(&mut self, s: &str) { self.line(&format!("out {s}")); }
    pub fn mon_fail(&mut self, clause: &str, sig: &str, detail: &str) {
        self.line(&format!("mon FAIL {clause} {sig} {}", detail.replace('\n', " ")));
    }
    pub fn end(&mut self) { self.line("end"); }
    pub fn flush(&mut self) { self.out.flush().unwrap(); }
}

pub fn list<T: std::fmt::Display>(xs: impl IntoIterator<Item = T>) -> String {
    let mut s = String::new();
    for (i, x) in xs.into_iter().enumerate() {
        if i > 0 { s.push(','); }
        write!(s, "{x}").unwrap();
    }
    if s.is_empty() { "-".to_string() } else { s }
}

pub fn parse_list(s: &str) -> Vec<u64> {
    if s == "-" { vec![] } else { s.split(',').map(|x| x.parse().unwrap()).collect() }
}

/// Runs `f`, turning a panic into `Err(message)`. The default panic hook is silenced while it runs.
pub fn catch<R>(f: impl FnOnce() -> R) -> Result<R, String> {
    thread_local! { static LOC: std::cell::RefCell<String> = const { std::cell::RefCell::new(String::new()) }; }
    let prev = std::panic::take_hook();
    std::panic::set_hook(Box::new(|info| {
        let loc = info.location().map(|l| format!("{}:{}", l.file(), l.line())).unwrap_or_default();
        LOC.with(|c| {
            // keep the first location (a resumed panic reports the resume site)
            let mut c = c.borrow_mut();
            if c.is_empty() { *c = loc; }
        });
    }));
    LOC.with(|c| c.borrow_mut().clear());
    let r = std::panic::catch_unwind(std::panic::AssertUnwindSafe(f));
    std::panic::set_hook(prev);
    r.map_err(|e| {
        let msg = if let Some(s) = e.downcast_ref::<&str>() { s.to_string() }
        else if let Some(s) = e.downcast_ref::<String>() { s.clone() }
        else { "panic".to_string() };
        let loc = LOC.with(|c| c.borrow().clone());
        format!("[{}] {}", loc.rsplit("crates/").next().unwrap_or(&loc), msg)
    })
}
