//! Component `stream` (property C19): streamed task output, writer + reader, byte level.
//!
//! Real code driven here (in-process, from /repo's working tree):
//!   writer  (a) the public path  `StreamerRef::new` → `Streamer::get_stream` (spawns the production
//!               `stream_writer` with `spawn_local`) → `StreamSender::{send_data, flush}` in a `LocalSet`;
//!           (b) the production `stream_writer` on an explicit queue (`verif::stream::run_stream_writer`),
//!               which lets the generator choose every header field (time stamps, ids at varint borders);
//!   reader  `OutputLog::open` / `create_index` (via `verif_from_paths`, explicit path order), the index
//!           accessors, `verif_cat` (production `_gather_infos` + `read_buffer`), and the production `cat`,
//!           `summary` themselves (stdout of `cat` is captured through a dup2 of fd 1).
//!
//! Trace ops (the Lean driver `hqm-stream` executes the same ops on the model):
//!   op file <fidx> <uid> <worker> <chunks> <keep|->   chunks: `-` | `time:job:task:inst:ch:len:dseed,...`
//!                                                    keep: observed file length when the writer was not flushed
//!   op raw <fidx> <hex|->                            file with explicit content
//!   op cut <fidx> <offset>                           file now holds only its first <offset> bytes
//!   op open <uid-filter|-> <order>                   OutputLog::open; order = accepted files as listed
//!   op openp <order>                                 create_index on an explicit order
use crate::util::{catch, list, GenArgs, Rng, Trace};
use hyperqueue::client::commands::outputlog::{CatOpts, Channel};
use hyperqueue::common::arraydef::IntArray;
use hyperqueue::common::serialization::SerializationConfig;
use hyperqueue::stream::StreamSerializationConfig;
use hyperqueue::verif::stream as hk;
use hyperqueue::verif::stream::{OutputLog, StreamChunkHeader, VerifMessage};
use hyperqueue::worker::streamer::StreamerRef;
use std::collections::{BTreeMap, BTreeSet};
use std::io::{Read, Write};
use std::os::fd::AsRawFd;
use std::path::{Path, PathBuf};
use tako::{InstanceId, JobId, JobTaskId, TaskId, WorkerId};

const TIME_MIN: i64 = -8334601228800000;
const TIME_MAX: i64 = 8210266876799999;

// ------------------------------------------------------------------------------------------------ helpers

fn fnv(bs: &[u8]) -> u64 {
    let mut h: u64 = 0xcbf29ce484222325;
    for b in bs {
        h ^= *b as u64;
        h = h.wrapping_mul(0x100000001b3);
    }
    h
}

/// deterministic data generator shared with the Lean driver (`dataGen`)
fn data_gen(seed: u64, len: usize) -> Vec<u8> {
    let mut x = seed % 2147483648;
    let mut out = Vec::with_capacity(len);
    for _ in 0..len {
        x = (x * 1103515245 + 12345) % 2147483648;
        out.push(((x / 65536) % 256) as u8);
    }
    out
}

fn hex(bs: &[u8]) -> String {
    if bs.is_empty() {
        return "-".into();
    }
    bs.iter().map(|b| format!("{b:02x}")).collect()
}

fn unhex(s: &str) -> Vec<u8> {
    if s == "-" {
        return vec![];
    }
    (0..s.len() / 2).map(|i| u8::from_str_radix(&s[2 * i..2 * i + 2], 16).unwrap()).collect()
}

unsafe extern "C" {
    fn dup(fd: i32) -> i32;
    fn dup2(a: i32, b: i32) -> i32;
    fn close(fd: i32) -> i32;
}

/// Runs `f` with fd 1 redirected into a scratch file and returns what was printed.
fn capture_stdout<R>(scratch: &Path, f: impl FnOnce() -> R) -> (R, Vec<u8>) {
    std::io::stdout().flush().unwrap();
    let file = std::fs::File::create(scratch).unwrap();
    let saved = unsafe { dup(1) };
    assert!(saved >= 0);
    unsafe { dup2(file.as_raw_fd(), 1) };
    let r = std::panic::catch_unwind(std::panic::AssertUnwindSafe(f));
    let _ = std::io::stdout().flush();
    unsafe {
        dup2(saved, 1);
        close(saved);
    }
    drop(file);
    let mut out = Vec::new();
    std::fs::File::open(scratch).unwrap().read_to_end(&mut out).unwrap();
    match r {
        Ok(r) => (r, out),
        Err(e) => std::panic::resume_unwind(e),
    }
}

// ------------------------------------------------------------------------------------------------ schedule

#[derive(Clone, Debug)]
struct ChunkSpec {
    time: i64,
    job: u32,
    task: u32,
    inst: u32,
    ch: u32,
    len: usize,
    dseed: u64,
}

impl ChunkSpec {
    fn show(&self) -> String {
        format!("{}:{}:{}:{}:{}:{}:{}", self.time, self.job, self.task, self.inst, self.ch, self.len, self.dseed)
    }
    fn parse(s: &str) -> ChunkSpec {
        let t: Vec<&str> = s.split(':').collect();
        ChunkSpec {
            time: t[0].parse().unwrap(),
            job: t[1].parse().unwrap(),
            task: t[2].parse().unwrap(),
            inst: t[3].parse().unwrap(),
            ch: t[4].parse().unwrap(),
            len: t[5].parse().unwrap(),
            dseed: t[6].parse().unwrap(),
        }
    }
    fn data(&self) -> Vec<u8> {
        data_gen(self.dseed, self.len)
    }
}

#[derive(Clone, Copy, PartialEq, Debug)]
enum Via {
    /// StreamerRef / get_stream / send_data (time stamps = Utc::now(), read back from the file)
    Api,
    /// production stream_writer on an explicit queue
    Raw,
}

#[derive(Clone, Debug)]
enum FileKind {
    Written { uid: String, worker: u32, chunks: Vec<ChunkSpec>, via: Via, flush_end: bool },
    Garbage(Vec<u8>),
}

#[derive(Clone, Debug)]
struct PlanFile {
    fidx: usize,
    kind: FileKind,
}

/// a file as it exists on disk during a case
struct DiskFile {
    fidx: usize,
    path: PathBuf,
    full: Vec<u8>,
    cut: usize,
    /// (data start, end) of every chunk of a written file, from decoding the real bytes
    layout: Vec<(usize, usize)>,
    chunks: Vec<ChunkSpec>,
    uid: Option<String>,
    /// the writer flushed at the end (everything it was sent is in `full`)
    complete: bool,
}

fn list_hqs(dir: &Path) -> BTreeSet<PathBuf> {
    std::fs::read_dir(dir)
        .unwrap()
        .map(|e| e.unwrap().path())
        .filter(|p| p.extension().map(|e| e == hk::STREAM_FILE_SUFFIX).unwrap_or(false))
        .collect()
}

fn chunk_header(c: &ChunkSpec) -> StreamChunkHeader {
    StreamChunkHeader {
        time: chrono::DateTime::from_timestamp_millis(c.time).expect("time in chrono range"),
        task: TaskId::new(JobId::new(c.job), JobTaskId::new(c.task)),
        instance: InstanceId::new(c.inst),
        channel: c.ch,
        size: c.len as u64,
    }
}

/// Writes one file with the real writer; returns the path of the file the writer created.
fn write_file(dir: &Path, uid: &str, worker: u32, chunks: &mut [ChunkSpec], via: Via, flush_end: bool) -> PathBuf {
    let before = list_hqs(dir);
    let rt = tokio::runtime::Builder::new_current_thread().enable_all().build().unwrap();
    let local = tokio::task::LocalSet::new();
    match via {
        Via::Raw => {
            let mut msgs: Vec<VerifMessage> = chunks
                .iter()
                .map(|c| VerifMessage::Write { header: chunk_header(c), data: c.data() })
                .collect();
            if flush_end {
                msgs.push(VerifMessage::Flush);
            }
            local.block_on(&rt, async {
                hk::run_stream_writer(uid, WorkerId::new(worker), dir, msgs).await.expect("stream_writer failed");
            });
        }
        Via::Api => {
            local.block_on(&rt, async {
                let streamer = StreamerRef::new(uid, WorkerId::new(worker));
                let mut senders = BTreeMap::new();
                // one StreamSender per (task, instance), as `run_task` obtains it
                for c in chunks.iter() {
                    senders.entry((c.job, c.task, c.inst)).or_insert_with(|| {
                        streamer
                            .get_mut()
                            .get_stream(
                                &streamer,
                                dir,
                                TaskId::new(JobId::new(c.job), JobTaskId::new(c.task)),
                                InstanceId::new(c.inst),
                            )
                            .expect("get_stream")
                    });
                }
                if senders.is_empty() {
                    // a worker that opened the stream directory but never sent anything
                    let s = streamer
                        .get_mut()
                        .get_stream(&streamer, dir, TaskId::new(JobId::new(0), JobTaskId::new(0)), InstanceId::new(0))
                        .expect("get_stream");
                    senders.insert((0, 0, 0), s);
                }
                let mut last = None;
                for c in chunks.iter() {
                    let s = &senders[&(c.job, c.task, c.inst)];
                    s.send_data(c.ch, c.data()).await.expect("send_data");
                    last = Some((c.job, c.task, c.inst));
                }
                let any = last.unwrap_or((0, 0, 0));
                if flush_end {
                    senders[&any].flush().await.expect("flush");
                } else {
                    // let the writer drain the queue, but without a final flush (worker killed)
                    for _ in 0..(chunks.len() + 8) {
                        tokio::task::yield_now().await;
                    }
                }
                drop(senders);
                // the writer task ends when every sender is gone
                for _ in 0..16 {
                    tokio::task::yield_now().await;
                }
            });
        }
    }
    drop(local);
    drop(rt); // joins the blocking pool: pending file writes are done
    let after = list_hqs(dir);
    let new: Vec<_> = after.difference(&before).cloned().collect();
    assert_eq!(new.len(), 1, "writer must create exactly one file");
    if via == Via::Api {
        // time stamps were chosen by the real code (Utc::now()): read them back
        let bytes = std::fs::read(&new[0]).unwrap();
        let (_, heads) = decode_layout(&bytes);
        for (c, h) in chunks.iter_mut().zip(heads.iter()) {
            c.time = h.2;
        }
    }
    new[0].clone()
}

/// Decodes a stream file with the real serialization config: offset behind the file header and, per chunk
/// whose header is complete, (data start, end, time).
fn decode_layout(bytes: &[u8]) -> (usize, Vec<(usize, usize, i64)>) {
    let magic = hk::STREAM_FILE_HEADER.len();
    if bytes.len() < magic {
        return (0, vec![]);
    }
    #[derive(serde::Deserialize)]
    struct FileHeader {
        _server_uid: String,
        _worker_id: u32,
    }
    use bincode::Options;
    let mut cur = std::io::Cursor::new(&bytes[magic..]);
    if StreamSerializationConfig::config().deserialize_from::<_, FileHeader>(&mut cur).is_err() {
        return (0, vec![]);
    }
    let hdr_len = magic + cur.position() as usize;
    let mut out = Vec::new();
    loop {
        let r: Result<StreamChunkHeader, _> = StreamSerializationConfig::config().deserialize_from(&mut cur);
        match r {
            Ok(h) => {
                let start = magic + cur.position() as usize;
                let end = start + h.size as usize;
                out.push((start, end, h.time.timestamp_millis()));
                cur.set_position(cur.position() + h.size);
                if end > bytes.len() {
                    break;
                }
            }
            Err(_) => break,
        }
    }
    (hdr_len, out)
}

// ------------------------------------------------------------------------------------------------ ground truth

#[derive(Default, Clone)]
struct InstTruth {
    files: BTreeSet<usize>,
    data: [Vec<u8>; 2],
    finished: bool,
    /// end offset (in its file) of the last chunk of the instance
    last_end: usize,
}

struct Truth {
    /// hypotheses of c19_readback hold for the schedule
    hyp: bool,
    tasks: BTreeMap<(u32, u32), BTreeMap<u32, InstTruth>>,
}

/// `NoReturn` of the Lean statement: once the sequence left a value it never returns to it.
fn no_return(seq: &[u32]) -> bool {
    let mut seen = BTreeSet::new();
    let mut last = None;
    for x in seq {
        if Some(*x) != last && !seen.insert(*x) {
            return false;
        }
        last = Some(*x);
    }
    true
}

fn truth(files: &[&DiskFile]) -> Truth {
    let mut hyp = true;
    let mut tasks: BTreeMap<(u32, u32), BTreeMap<u32, InstTruth>> = BTreeMap::new();
    let mut uids = BTreeSet::new();
    for f in files {
        match &f.uid {
            Some(u) => {
                uids.insert(u.clone());
            }
            None => hyp = false,
        }
        let mut per_task: BTreeMap<(u32, u32), Vec<u32>> = BTreeMap::new();
        for (k, c) in f.chunks.iter().enumerate() {
            if c.ch >= 2 {
                hyp = false;
                continue;
            }
            per_task.entry((c.job, c.task)).or_default().push(c.inst);
            let it = tasks.entry((c.job, c.task)).or_default().entry(c.inst).or_default();
            it.files.insert(f.fidx);
            it.data[c.ch as usize].extend_from_slice(&c.data());
            if c.len == 0 {
                it.finished = true;
            }
            it.last_end = f.layout.get(k).map(|x| x.1).unwrap_or(usize::MAX);
        }
        for seq in per_task.values() {
            if !no_return(seq) {
                hyp = false;
            }
        }
    }
    if uids.len() > 1 {
        hyp = false;
    }
    for insts in tasks.values() {
        for it in insts.values() {
            if it.files.len() != 1 {
                hyp = false;
            }
        }
    }
    Truth { hyp, tasks }
}

// ------------------------------------------------------------------------------------------------ a case

struct CaseRun<'a> {
    tr: &'a mut Trace,
    dir: PathBuf,
    scratch: PathBuf,
    files: Vec<DiskFile>,
    dead: bool,
    cat_checked: bool,
}

impl<'a> CaseRun<'a> {
    fn file(&self, fidx: usize) -> &DiskFile {
        self.files.iter().find(|f| f.fidx == fidx).unwrap()
    }

    fn out_file(&mut self, fidx: usize) {
        let f = self.file(fidx);
        let cur = &f.full[..f.cut.min(f.full.len())];
        let line = format!("file {} {} {}", fidx, cur.len(), fnv(cur));
        self.tr.out(&line);
    }

    fn add_written(&mut self, fidx: usize, uid: &str, worker: u32, mut chunks: Vec<ChunkSpec>, via: Via, flush_end: bool) {
        let path = write_file(&self.dir, uid, worker, &mut chunks, via, flush_end);
        let full = std::fs::read(&path).unwrap();
        let keep = if flush_end { "-".to_string() } else { full.len().to_string() };
        self.tr.op(&format!(
            "file {} {} {} {} {}",
            fidx,
            uid,
            worker,
            if chunks.is_empty() { "-".to_string() } else { chunks.iter().map(|c| c.show()).collect::<Vec<_>>().join(",") },
            keep
        ));
        let (_, lay) = decode_layout(&full);
        let layout = lay.iter().map(|x| (x.0, x.1)).collect();
        let cut = full.len();
        self.files.push(DiskFile { fidx, path, full, cut, layout, chunks, uid: Some(uid.to_string()), complete: flush_end });
        self.out_file(fidx);
    }

    fn add_raw(&mut self, fidx: usize, bytes: Vec<u8>) {
        let path = self.dir.join(format!("raw{fidx}.{}", hk::STREAM_FILE_SUFFIX));
        std::fs::write(&path, &bytes).unwrap();
        self.tr.op(&format!("raw {} {}", fidx, hex(&bytes)));
        let cut = bytes.len();
        self.files.push(DiskFile { fidx, path, full: bytes, cut, layout: vec![], chunks: vec![], uid: None, complete: true });
        self.out_file(fidx);
    }

    fn cut(&mut self, fidx: usize, off: usize) {
        let f = self.files.iter_mut().find(|f| f.fidx == fidx).unwrap();
        f.cut = off.min(f.full.len());
        // rewrite in place (same inode, same directory entry)
        let mut h = std::fs::OpenOptions::new().write(true).truncate(true).open(&f.path).unwrap();
        h.write_all(&f.full[..f.cut]).unwrap();
        drop(h);
        self.tr.op(&format!("cut {fidx} {off}"));
        self.out_file(fidx);
    }

    fn fidx_of(&self, p: &Path) -> usize {
        self.files.iter().find(|f| f.path == p).map(|f| f.fidx).unwrap_or(999999)
    }

    /// `OutputLog::open` on the directory (order observed) or `create_index` on an explicit order.
    fn open(&mut self, filter: Option<&str>, explicit: Option<&[usize]>) {
        if self.dead {
            return;
        }
        let dir = self.dir.clone();
        let res = match explicit {
            None => catch(|| OutputLog::open(&dir, filter)),
            Some(order) => {
                let paths: Vec<PathBuf> = order.iter().map(|i| self.file(*i).path.clone()).collect();
                catch(|| OutputLog::verif_from_paths(paths))
            }
        };
        let order: Vec<usize> = match &res {
            Ok(Ok(log)) => log.verif_paths().iter().map(|p| self.fidx_of(p)).collect(),
            _ => match explicit {
                Some(o) => o.to_vec(),
                None => {
                    // `open` failed and reveals no path order: list the directory the way `open` does
                    // (same `read_dir`, the directory is unchanged in between) and keep the accepted files
                    let acc = self.model_accepted(filter);
                    let mut listed: Vec<usize> = std::fs::read_dir(&self.dir)
                        .unwrap()
                        .map(|e| self.fidx_of(&e.unwrap().path()))
                        .filter(|i| acc.contains(i))
                        .collect();
                    for i in acc {
                        if !listed.contains(&i) {
                            listed.push(i);
                        }
                    }
                    listed
                }
            },
        };
        match explicit {
            None => self.tr.op(&format!("open {} {}", filter.unwrap_or("-"), list(order.iter()))),
            Some(o) => self.tr.op(&format!("openp {}", list(o.iter()))),
        }
        match res {
            Err(msg) => {
                let site = if msg.contains("index out of bounds") { "channel-index" } else { "other" };
                self.tr.out(&format!("!panic {site}"));
                self.dead = true;
            }
            Ok(Err(e)) => {
                let s = e.to_string();
                let kind = if s.contains("No log files found") {
                    "nofiles"
                } else if s.contains("multiple server instances") {
                    "multiuid"
                } else {
                    "invalid"
                };
                self.tr.out(&format!("open {kind}"));
            }
            Ok(Ok(mut log)) => {
                self.tr.out("open ok");
                self.dump(&mut log, &order, explicit, filter);
            }
        }
    }

    /// When `open` fails the real code reveals no path order; any order of the files with a readable header
    /// and matching uid is as good as another (the model checks the set).
    fn model_accepted(&self, filter: Option<&str>) -> Vec<usize> {
        let mut v = vec![];
        for f in &self.files {
            let cur = &f.full[..f.cut];
            let (hl, _) = decode_layout(cur);
            if hl > 0 {
                let uid_ok = match filter {
                    None => true,
                    Some(u) => file_uid(cur).as_deref() == Some(u),
                };
                if uid_ok {
                    v.push(f.fidx);
                }
            }
        }
        v
    }

    fn dump(&mut self, log: &mut OutputLog, order: &[usize], explicit: Option<&[usize]>, filter: Option<&str>) {
        let index = log.verif_index();
        // ground truth over the files that are in the listing that was opened
        let present: Vec<&DiskFile> = match explicit {
            Some(o) => self.files.iter().filter(|f| o.contains(&f.fidx)).collect(),
            None => self.files.iter().filter(|f| filter.is_none() || f.uid.is_none() || f.uid.as_deref() == filter).collect(),
        };
        let truth = truth(&present);
        let cuts: BTreeMap<usize, usize> = self.files.iter().map(|f| (f.fidx, f.cut)).collect();
        let all_full = present.iter().all(|f| f.cut >= f.full.len() && f.complete);
        for (job, task, insts) in &index {
            let fx = |i: usize| order.get(i).copied().unwrap_or(999999);
            self.tr.out(&format!(
                "idx {job} {task} {}",
                list(insts.iter().map(|i| format!(
                    "{}:{}:{}:{}:{}",
                    i.instance_id,
                    fx(i.file_idx),
                    i.finished as u8,
                    i.channels[0].len(),
                    i.channels[1].len()
                )))
            ));
            let mut cats: [Option<Vec<u8>>; 2] = [None, None];
            let mut fin = None;
            for ch in 0..2usize {
                match log.verif_cat(JobId::new(*job), *task, ch) {
                    Ok((f, data)) => {
                        self.tr.out(&format!("cat {job} {task} {ch} ok {} {}", data.len(), fnv(&data)));
                        cats[ch] = Some(data);
                        fin = Some(f);
                    }
                    Err(_) => self.tr.out(&format!("cat {job} {task} {ch} err")),
                }
            }
            // the flag of the instance that the production `_gather_infos` (-> `last_instance`) selects; the last
            // entry of the index only if no channel could be read
            let fin_idx = fin.or(insts.last().map(|i| i.finished));
            self.tr.out(&format!("fin {job} {task} {}", fin_idx.map(|b| (b as u8).to_string()).unwrap_or("-".into())));
            let sup = log.verif_superseded(JobId::new(*job), *task).unwrap_or_default();
            self.tr.out(&format!("sup {job} {task} {}", list(sup.iter())));

            // ---- the production `cat` itself, once per case on the undisturbed directory
            if all_full && !self.cat_checked {
                for ch in 0..2usize {
                    let opts = CatOpts {
                        job: JobId::new(*job),
                        channel: if ch == 0 { Channel::Stdout } else { Channel::Stderr },
                        task: Some(IntArray::from_id(*task)),
                        allow_unfinished: true,
                    };
                    self.tr.flush();
                    let (r, printed) = capture_stdout(&self.scratch, || log.cat(&opts));
                    let same = match (&r, &cats[ch]) {
                        (Ok(()), Some(d)) => &printed == d,
                        (Err(_), None) => true,
                        _ => false,
                    };
                    if !same {
                        self.tr.mon_fail("c19.cat", "cat-vs-accessor", &format!("task {job}.{task} ch {ch}: `cat` printed {} bytes (ok={}), index accessor gives {:?} bytes", printed.len(), r.is_ok(), cats[ch].as_ref().map(|d| d.len())));
                    }
                    // without --allow-unfinished `cat` must refuse exactly the unfinished streams
                    let strict = CatOpts { allow_unfinished: false, ..opts };
                    let (r2, _) = capture_stdout(&self.scratch, || log.cat(&strict));
                    if let Some(f) = fin_idx {
                        if r.is_ok() && r2.is_ok() != f {
                            self.tr.mon_fail("c19.finished", "strict-cat", &format!("task {job}.{task}: finished={f} but strict cat ok={}", r2.is_ok()));
                        }
                    }
                }
            }

            // ---- monitors: the theorems' conclusions on the real behaviour
            if !truth.hyp {
                continue;
            }
            let Some(tt) = truth.tasks.get(&(*job, *task)) else {
                self.tr.mon_fail("c19.readback", "phantom-task", &format!("task {job}.{task} is in the index but was never written"));
                continue;
            };
            let (max_inst, it) = tt.iter().next_back().unwrap();
            let f = *it.files.iter().next().unwrap();
            let intact = cuts[&f] >= it.last_end;
            if intact {
                let clause = if all_full { "c19.readback" } else { "c19.torn" };
                for ch in 0..2usize {
                    match &cats[ch] {
                        Some(d) if *d == it.data[ch] => {}
                        other => self.tr.mon_fail(clause, "bytes", &format!(
                            "task {job}.{task} ch {ch}: read back {:?} bytes, the last instance {max_inst} wrote {} bytes (cuts {:?})",
                            other.as_ref().map(|d| d.len()), it.data[ch].len(), cuts)),
                    }
                }
                if fin_idx != Some(it.finished) {
                    let clause = if all_full { "c19.finished" } else { "c19.torn" };
                    self.tr.mon_fail(clause, "flag", &format!(
                        "task {job}.{task}: finished={fin_idx:?}, end marker of instance {max_inst} written={} (cuts {:?})", it.finished, cuts));
                }
                if all_full {
                    let expect: Vec<u32> = tt.keys().copied().filter(|i| i != max_inst).collect();
                    if sup != expect {
                        self.tr.mon_fail("c19.superseded", "set", &format!("task {job}.{task}: superseded {sup:?}, earlier instances written {expect:?}"));
                    }
                }
            }
        }
        if truth.hyp && all_full {
            for (job, task) in truth.tasks.keys() {
                if !index.iter().any(|(j, t, _)| j == job && t == task) {
                    self.tr.mon_fail("c19.readback", "missing-task", &format!("task {job}.{task} was written but is not in the index"));
                }
            }
        }
        let s = log.summary();
        self.tr.out(&format!(
            "sum {} {} {} {} {} {} {} {} {} {}",
            s.n_files, s.n_jobs, s.n_tasks, s.n_streams, s.n_opened, s.stdout_size, s.stderr_size, s.n_superseded,
            s.superseded_stdout_size, s.superseded_stderr_size
        ));
        if all_full {
            self.cat_checked = true;
        }
    }
}

fn file_uid(bytes: &[u8]) -> Option<String> {
    let magic = hk::STREAM_FILE_HEADER.len();
    if bytes.len() < magic {
        return None;
    }
    use bincode::Options;
    let r: Result<(String, u32), _> = StreamSerializationConfig::config().deserialize(&bytes[magic..]);
    r.ok().map(|x| x.0)
}

// ------------------------------------------------------------------------------------------------ generators

fn stdio_buffer_size() -> usize {
    // `STDIO_BUFFER_SIZE` is private to worker/start/program.rs: read it from the source text
    let src = std::fs::read_to_string("/repo/crates/hyperqueue/src/worker/start/program.rs").unwrap_or_default();
    for line in src.lines() {
        if let Some(rest) = line.trim().strip_prefix("const STDIO_BUFFER_SIZE: usize =") {
            let expr = rest.split(';').next().unwrap_or("");
            let prod: Option<usize> = expr.split('*').map(|t| t.trim().parse::<usize>().ok()).product();
            if let Some(p) = prod {
                return p;
            }
        }
    }
    16 * 1024
}

fn riffle<T>(rng: &mut Rng, mut seqs: Vec<Vec<T>>) -> Vec<T> {
    for s in seqs.iter_mut() {
        s.reverse();
    }
    let mut out = vec![];
    loop {
        let w: Vec<u64> = seqs.iter().map(|s| s.len() as u64).collect();
        if w.iter().all(|x| *x == 0) {
            return out;
        }
        let i = rng.weighted(&w);
        out.push(seqs[i].pop().unwrap());
    }
}

fn pick_len(rng: &mut Rng, bufsize: usize, big_ok: bool) -> usize {
    match rng.weighted(&[3, 6, 2, if big_ok { 1 } else { 0 }, 1]) {
        0 => 1,
        1 => rng.range(2, 40) as usize,
        2 => *rng.pick(&[250usize, 251, 252, 255, 256]),
        3 => *rng.pick(&[bufsize, bufsize, bufsize - 1, 65535, 65536]),
        _ => rng.range(41, 600) as usize,
    }
}

/// chunk sequence of one execution: both pipes interleaved, end markers (unless the execution crashed)
fn instance_chunks(rng: &mut Rng, job: u32, task: u32, inst: u32, bufsize: usize, big_ok: bool, time: i64) -> Vec<ChunkSpec> {
    let piped: &[u32] = match rng.below(4) {
        0 => &[0],
        1 => &[1],
        _ => &[0, 1],
    };
    let crashed = rng.chance(1, 4);
    let mut seqs = vec![];
    for ch in piped {
        let n = match rng.below(5) {
            0 => 0, // empty output
            1 => 1,
            _ => rng.range(1, 5),
        };
        let mut s: Vec<ChunkSpec> = (0..n)
            .map(|_| ChunkSpec { time, job, task, inst, ch: *ch, len: pick_len(rng, bufsize, big_ok), dseed: rng.below(1 << 30) })
            .collect();
        if !(crashed && rng.chance(2, 3)) {
            s.push(ChunkSpec { time, job, task, inst, ch: *ch, len: 0, dseed: 0 });
        }
        seqs.push(s);
    }
    riffle(rng, seqs)
}

const BORDER_IDS: [u32; 8] = [0, 1, 250, 251, 65535, 65536, 4294967295, 7];
const BORDER_TIMES: [i64; 12] = [0, -1, 1, 125, -126, 126, 32767, 32768, -2147483648, 1767225600000, TIME_MIN, TIME_MAX];

fn gen_plan(rng: &mut Rng, kind: u64, bufsize: usize) -> Vec<PlanFile> {
    let mut files: Vec<PlanFile> = vec![];
    let uid = "Uid0Abc".to_string();
    match kind {
        // ---- within the hypotheses: tasks × instances spread over 1..3 writers, chunks interleaved
        0 | 1 | 5 => {
            let nfiles = rng.range(1, 3) as usize;
            let ntasks = rng.range(1, 5) as u32;
            let raw = kind == 1;
            let mut per_file: Vec<BTreeMap<(u32, u32), Vec<Vec<ChunkSpec>>>> = vec![BTreeMap::new(); nfiles];
            let mut big_budget = 2;
            for t in 0..ntasks {
                let (job, task) = if raw {
                    {
                        // task id u32::MAX is avoided: `IntArray::from_id(u32::MAX).iter()` is empty (start + count
                        // wraps), so `cat --task 4294967295` selects nothing - see notes/stream_auth.md (S2)
                        const BORDER_TASKS: [u32; 8] = [0, 1, 250, 251, 65535, 65536, 4294967294, 7];
                        let base = rng.below(8) as u32;
                        (*rng.pick(&BORDER_IDS), BORDER_TASKS[((base + t) % 8) as usize])
                    }
                } else {
                    (rng.range(1, 2) as u32, t)
                };
                let ninst = rng.range(1, 3);
                let mut inst = if raw { *rng.pick(&[0u32, 249, 250, 65534, 4294967290]) } else { rng.below(3) as u32 };
                for _ in 0..ninst {
                    let f = rng.below(nfiles as u64) as usize;
                    let big_ok = big_budget > 0 && rng.chance(1, 3);
                    let time = if raw { *rng.pick(&BORDER_TIMES) } else { 0 };
                    let cs = instance_chunks(rng, job, task, inst, bufsize, big_ok, time);
                    if cs.iter().any(|c| c.len >= 4096) {
                        big_budget -= 1;
                    }
                    per_file[f].entry((job, task)).or_default().push(cs);
                    inst = inst.wrapping_add(rng.range(1, 2) as u32);
                }
            }
            for (fidx, pf) in per_file.into_iter().enumerate() {
                // instances of one task inside one file are sequential (one live execution at a time);
                // mostly in increasing order, sometimes not
                let seqs: Vec<Vec<ChunkSpec>> = pf
                    .into_values()
                    .map(|mut insts| {
                        if rng.chance(1, 4) {
                            insts.reverse();
                        }
                        insts.into_iter().flatten().collect()
                    })
                    .collect();
                let chunks = riffle(rng, seqs);
                let via = if raw || kind == 5 { Via::Raw } else { Via::Api };
                let flush_end = !(kind == 5 && fidx == 0);
                files.push(PlanFile { fidx, kind: FileKind::Written { uid: uid.clone(), worker: if raw { *rng.pick(&BORDER_IDS) } else { fidx as u32 + 1 }, chunks, via, flush_end } });
            }
            if kind == 5 {
                // make the unflushed file long enough that BufWriter has written a part of it
                if let FileKind::Written { chunks, .. } = &mut files[0].kind {
                    for k in 0..3 {
                        chunks.push(ChunkSpec { time: 0, job: 9, task: 9, inst: 1, ch: 0, len: 3000 + 1000 * k, dseed: rng.below(1 << 30) });
                    }
                }
            }
        }
        // ---- outside the hypotheses: instances of one task interleaved in a file / one instance in two files
        2 => {
            let nfiles = rng.range(1, 3) as usize;
            let mut all: Vec<Vec<ChunkSpec>> = vec![vec![]; nfiles];
            let ntasks = rng.range(1, 3) as u32;
            for f in 0..nfiles {
                let mut seqs = vec![];
                for t in 0..ntasks {
                    for inst in 0..rng.range(1, 3) as u32 {
                        seqs.push(instance_chunks(rng, 1, t, inst, bufsize, false, 0));
                    }
                }
                all[f] = riffle(rng, seqs);
            }
            for (fidx, chunks) in all.into_iter().enumerate() {
                files.push(PlanFile { fidx, kind: FileKind::Written { uid: uid.clone(), worker: fidx as u32 + 1, chunks, via: Via::Raw, flush_end: true } });
            }
        }
        // ---- many alternating blocks of one task (stability of the instance sort)
        3 => {
            let n = rng.range(24, 70);
            let ids: Vec<u32> = (0..rng.range(2, 3) as u32).collect();
            let mut chunks = vec![];
            for _ in 0..n {
                let inst = *rng.pick(&ids);
                chunks.push(ChunkSpec { time: 0, job: 1, task: 0, inst, ch: rng.below(2) as u32, len: rng.range(0, 3) as usize, dseed: rng.below(1 << 30) });
            }
            let split = rng.below(n) as usize;
            let second = chunks.split_off(split);
            files.push(PlanFile { fidx: 0, kind: FileKind::Written { uid: uid.clone(), worker: 1, chunks, via: Via::Raw, flush_end: true } });
            if rng.chance(1, 2) {
                files.push(PlanFile { fidx: 1, kind: FileKind::Written { uid: uid.clone(), worker: 2, chunks: second, via: Via::Raw, flush_end: true } });
            }
        }
        // ---- channel ≥ 2, several server uids, unreadable files
        4 => {
            let mut chunks = instance_chunks(rng, 1, 0, 0, bufsize, false, 5);
            match rng.below(3) {
                0 => chunks.push(ChunkSpec { time: 5, job: 1, task: 1, inst: 0, ch: rng.range(2, 3) as u32, len: rng.range(1, 9) as usize, dseed: 3 }),
                1 => chunks.push(ChunkSpec { time: 5, job: 1, task: 1, inst: 0, ch: rng.range(2, 300) as u32, len: 0, dseed: 0 }),
                _ => {}
            }
            files.push(PlanFile { fidx: 0, kind: FileKind::Written { uid: uid.clone(), worker: 1, chunks, via: Via::Raw, flush_end: true } });
            if rng.chance(1, 2) {
                let other = if rng.chance(1, 2) { "OtherUid9".to_string() } else { uid.clone() };
                let chunks = instance_chunks(rng, 1, 2, 1, bufsize, false, 6);
                files.push(PlanFile { fidx: 1, kind: FileKind::Written { uid: other, worker: 2, chunks, via: Via::Raw, flush_end: true } });
            }
            if rng.chance(2, 3) {
                files.push(PlanFile { fidx: 2, kind: FileKind::Garbage(gen_garbage(rng)) });
            }
        }
        _ => {}
    }
    files
}

fn varint(v: u64) -> Vec<u8> {
    use bincode::Options;
    StreamSerializationConfig::config().serialize(&v).unwrap()
}

/// hand-made file contents: broken magic, short headers, discriminants 254/255, non-minimal varints,
/// u32 overflow, time stamp outside chrono's range, non-ASCII uid
fn gen_garbage(rng: &mut Rng) -> Vec<u8> {
    let mut good = hk::STREAM_FILE_HEADER.to_vec();
    good.extend(varint(3));
    good.extend(b"Uid");
    good.extend(varint(7));
    let hdr = |t: Vec<u8>, job: Vec<u8>, task: Vec<u8>, inst: Vec<u8>, ch: Vec<u8>, size: Vec<u8>| -> Vec<u8> {
        [t, job, task, inst, ch, size].concat()
    };
    let uid0 = {
        let mut g = hk::STREAM_FILE_HEADER.to_vec();
        g.extend(varint(7));
        g.extend(b"Uid0Abc");
        g.extend(varint(7));
        g
    };
    match rng.below(12) {
        0 => b"hqsf0001".to_vec(),
        1 => good[..rng.below(good.len() as u64) as usize].to_vec(),
        2 => vec![],
        3 => [uid0.clone(), hdr(vec![255], vec![1], vec![1], vec![1], vec![0], vec![0])].concat(),
        4 => [uid0.clone(), hdr(vec![2], vec![254, 1, 2], vec![1], vec![1], vec![0], vec![0])].concat(),
        5 => [uid0.clone(), hdr(vec![2], vec![251, 5, 0], vec![252, 6, 0, 0, 0], vec![253, 1, 0, 0, 0, 0, 0, 0, 0], vec![0], vec![2]), vec![65, 66]].concat(),
        6 => [uid0.clone(), hdr(vec![2], vec![253, 0, 0, 0, 0, 1, 0, 0, 0], vec![1], vec![1], vec![0], vec![0])].concat(),
        7 => [uid0.clone(), hdr(varint(2 * (TIME_MAX as u64 + 1)), vec![1], vec![1], vec![1], vec![0], vec![0])].concat(),
        8 => [uid0.clone(), hdr(varint(2 * (-(TIME_MIN + 1)) as u64 + 1), vec![1], vec![1], vec![1], vec![0], vec![0]), hdr(varint(2 * (-TIME_MIN) as u64 + 1), vec![1], vec![1], vec![1], vec![0], vec![0])].concat(),
        9 => {
            let mut g = hk::STREAM_FILE_HEADER.to_vec();
            g.extend(varint(2));
            g.extend([0xc3, 0x28]);
            g.extend(varint(7));
            g
        }
        10 => [uid0.clone(), hdr(vec![2], vec![1], vec![5], vec![1], vec![1], vec![200]), vec![1, 2, 3]].concat(),
        _ => [uid0, hdr(vec![2], vec![1], vec![5], vec![1], vec![0], vec![3]), vec![1, 2, 3], vec![2, 1, 5, 251]].concat(),
    }
}

fn run_case(tr: &mut Trace, idx: u64, subseed: u64, thorough: bool, bufsize: usize, forced_kind: Option<u64>) {
    let mut rng = Rng::new(subseed);
    let kind = forced_kind.unwrap_or_else(|| rng.weighted(&[8, 4, 3, 2, 3, 1, 1]) as u64);
    let plan = gen_plan(&mut rng, kind, bufsize);
    let tmp = tempfile::tempdir().unwrap();
    let dir = tmp.path().join("stream");
    std::fs::create_dir_all(&dir).unwrap();
    tr.case(idx, subseed, &format!("kind={kind} bufsize={bufsize}"));
    let mut run = CaseRun { tr, dir, scratch: tmp.path().join("stdout.capture"), files: vec![], dead: false, cat_checked: false };
    for pf in plan {
        match pf.kind {
            FileKind::Written { uid, worker, chunks, via, flush_end } => run.add_written(pf.fidx, &uid, worker, chunks, via, flush_end),
            FileKind::Garbage(b) => run.add_raw(pf.fidx, b),
        }
    }
    exercise(&mut run, &mut rng, thorough, kind);
    run.tr.end();
}

/// the reader-side ops of a case: open, permuted opens, uid filters, the truncation sweep
fn exercise(run: &mut CaseRun, rng: &mut Rng, thorough: bool, kind: u64) {
    run.open(None, None);
    let ids: Vec<usize> = run.files.iter().map(|f| f.fidx).collect();
    if run.dead {
        return;
    }
    if kind == 4 {
        run.open(Some("Uid0Abc"), None);
        run.open(Some("OtherUid9"), None);
        run.open(Some("nobody"), None);
    }
    // directory order permutations through create_index
    let nperm = if ids.len() >= 2 { if thorough { 6 } else { 2 } } else { 1 };
    for _ in 0..nperm {
        let mut p = ids.clone();
        for i in (1..p.len()).rev() {
            p.swap(i, rng.below(i as u64 + 1) as usize);
        }
        if rng.chance(1, 6) && p.len() > 1 {
            p.pop(); // a listing without one of the files
        }
        run.open(None, Some(&p));
        if run.dead {
            return;
        }
    }
    // truncation: one file cut, the others intact
    let mut offsets: Vec<(usize, usize)> = vec![];
    for f in &run.files {
        let n = f.full.len();
        if thorough && n <= 3000 {
            offsets.extend((0..n).map(|o| (f.fidx, o)));
        } else {
            let mut marks: BTreeSet<usize> = BTreeSet::new();
            let (hl, lay) = decode_layout(&f.full);
            let mut borders = vec![0usize, hl, n];
            for (s, e, _) in &lay {
                borders.push(*s);
                borders.push(*e);
            }
            let per_file = if thorough { 600 } else { 64 / run.files.len().max(1) + 1 };
            for _ in 0..per_file {
                let o = if rng.chance(1, 2) || n == 0 {
                    let b = *rng.pick(&borders) as i64 + rng.range(0, 24) as i64 - 12;
                    b.clamp(0, n as i64) as usize
                } else {
                    rng.below(n as u64) as usize
                };
                if o < n {
                    marks.insert(o);
                }
            }
            offsets.extend(marks.into_iter().map(|o| (f.fidx, o)));
        }
    }
    let mut prev: Option<usize> = None;
    for (fidx, o) in offsets {
        if let Some(p) = prev {
            if p != fidx {
                let full = run.file(p).full.len();
                run.cut(p, full);
            }
        }
        prev = Some(fidx);
        run.cut(fidx, o);
        if ids.len() >= 2 && rng.chance(1, 4) {
            let mut p = ids.clone();
            for i in (1..p.len()).rev() {
                p.swap(i, rng.below(i as u64 + 1) as usize);
            }
            run.open(None, Some(&p));
        } else {
            run.open(None, None);
        }
        if run.dead {
            return;
        }
    }
    if let Some(p) = prev {
        let full = run.file(p).full.len();
        run.cut(p, full);
    }
    // several workers crashed: every file cut somewhere
    if ids.len() >= 2 {
        for _ in 0..(if thorough { 40 } else { 6 }) {
            for i in &ids {
                let n = run.file(*i).full.len();
                let o = if rng.chance(1, 3) { n } else { rng.below(n as u64 + 1) as usize };
                run.cut(*i, o);
            }
            run.open(None, None);
            if run.dead {
                return;
            }
        }
    }
}

/// borders of the time stamps chrono accepts (constants `timeMin`/`timeMax` of the Lean model)
fn probe_time_borders() -> (i128, i128) {
    let ok = |t: i64| chrono::DateTime::from_timestamp_millis(t).is_some();
    let (mut lo, mut hi) = (0i128, i64::MAX as i128);
    while lo < hi {
        let mid = (lo + hi + 1) / 2;
        if ok(mid as i64) { lo = mid } else { hi = mid - 1 }
    }
    let max = lo;
    let (mut lo, mut hi) = (i64::MIN as i128, 0i128);
    while lo < hi {
        let mid = (lo + hi).div_euclid(2);
        if ok(mid as i64) { hi = mid } else { lo = mid + 1 }
    }
    (lo, max)
}

fn generate(args: &GenArgs) {
    assert_eq!(probe_time_borders(), (TIME_MIN as i128, TIME_MAX as i128), "chrono's time stamp range differs from the model's constants");
    let mut tr = Trace::new();
    let bufsize = stdio_buffer_size();
    let forced = args.value("--kind").map(|k| k.parse().unwrap());
    assert_eq!(hk::streamer_buffer_size(), 128, "STREAMER_BUFFER_SIZE changed: revisit the writer model's queue assumption");
    for k in 0..args.cases {
        let subseed = args.case_seed(k);
        let idx = args.shard * 1_000_000 + k;
        // the first cases of shard 0 are fixed small scenarios
        if args.shard == 0 && k == 0 && forced.is_none() {
            fixed_cases(&mut tr, idx);
            continue;
        }
        run_case(&mut tr, idx, subseed, args.thorough, bufsize, forced);
        tr.flush();
    }
    tr.flush();
}

/// hand-written scenarios: empty directory, a worker that wrote nothing, the canonical two-run example
fn fixed_cases(tr: &mut Trace, idx: u64) {
    let tmp = tempfile::tempdir().unwrap();
    let dir = tmp.path().join("stream");
    std::fs::create_dir_all(&dir).unwrap();
    tr.case(idx, 0, "kind=fixed");
    let mut run = CaseRun { tr, dir, scratch: tmp.path().join("stdout.capture"), files: vec![], dead: false, cat_checked: false };
    run.open(None, None); // no files at all
    run.add_written(0, "Uid0Abc", 1, vec![], Via::Api, true);
    run.open(None, None);
    let c = |inst: u32, ch: u32, len: usize, d: u64| ChunkSpec { time: 0, job: 1, task: 0, inst, ch, len, dseed: d };
    // run 1 of task 1.0 on worker 2 dies after two chunks, run 2 on worker 3 completes
    run.add_written(1, "Uid0Abc", 2, vec![c(1, 0, 5, 1), c(1, 1, 2, 2)], Via::Api, true);
    run.add_written(2, "Uid0Abc", 3, vec![c(2, 0, 3, 3), c(2, 0, 4, 4), c(2, 1, 0, 0), c(2, 0, 0, 0)], Via::Api, true);
    run.open(None, None);
    run.open(None, Some(&[2, 1, 0]));
    run.open(None, Some(&[1, 0, 2]));
    run.tr.end();
}

fn replay() {
    let mut input = String::new();
    std::io::stdin().read_to_string(&mut input).unwrap();
    let mut tr = Trace::new();
    let mut cur: Option<(tempfile::TempDir, Vec<DiskFile>, bool, bool)> = None;
    for line in input.lines() {
        let t: Vec<&str> = line.split_whitespace().collect();
        if t.is_empty() {
            continue;
        }
        match t[0] {
            "case" => {
                tr.line(line);
                let tmp = tempfile::tempdir().unwrap();
                std::fs::create_dir_all(tmp.path().join("stream")).unwrap();
                cur = Some((tmp, vec![], false, false));
            }
            "end" => {
                tr.end();
                cur = None;
            }
            "op" => {
                let Some((tmp, files, dead, cat_checked)) = cur.take() else { continue };
                let mut run = CaseRun { tr: &mut tr, dir: tmp.path().join("stream"), scratch: tmp.path().join("stdout.capture"), files, dead, cat_checked };
                match t[1] {
                    // replayed writers always go through the explicit queue (time stamps are part of the op)
                    "file" => {
                        let chunks: Vec<ChunkSpec> = if t[5] == "-" { vec![] } else { t[5].split(',').map(ChunkSpec::parse).collect() };
                        let fidx: usize = t[2].parse().unwrap();
                        run.add_written(fidx, t[3], t[4].parse().unwrap(), chunks, Via::Raw, true);
                        if t.len() > 6 && t[6] != "-" {
                            run.cut(fidx, t[6].parse().unwrap());
                        }
                    }
                    "raw" => run.add_raw(t[2].parse().unwrap(), unhex(t[3])),
                    "cut" => run.cut(t[2].parse().unwrap(), t[3].parse().unwrap()),
                    "open" => run.open(if t[2] == "-" { None } else { Some(t[2]) }, None),
                    "openp" => {
                        let order: Vec<usize> = crate::util::parse_list(t[2]).into_iter().map(|x| x as usize).collect();
                        run.open(None, Some(&order));
                    }
                    _ => run.tr.out("!bad-op"),
                }
                let CaseRun { files, dead, cat_checked, .. } = run;
                cur = Some((tmp, files, dead, cat_checked));
            }
            _ => {}
        }
    }
    tr.flush();
}

pub fn main(mode: &str, args: &[String]) {
    match mode {
        "gen" => generate(&GenArgs::parse(args)),
        "replay" => replay(),
        "probe" => {
            let (lo, max) = probe_time_borders();
            println!("time_min {lo} time_max {max} model {TIME_MIN} {TIME_MAX}");
        }
        _ => {
            eprintln!("component stream: unknown mode {mode}");
            std::process::exit(2);
        }
    }
}
