//! Component `stream` (see /verif/FRAMEWORK.md).

pub fn main(mode: &str, _args: &[String]) {
    eprintln!("component stream: mode {mode} not implemented yet");
    std::process::exit(2);
}
