//! Component `sched` (property C15): one scheduling decision of the real tako scheduler
//! (`create_task_batches` -> `run_scheduling_solver` (HiGHS) -> `create_task_mapping`) on small instances.
//!
//! Per case the harness builds a real `VerifServer`, makes the workers partly busy, submits the ready tasks,
//! runs ONE real scheduling round and prints
//!   * the instance as read back from the real core (`op worker|class|queue`),
//!   * the choices of the round (`op sol` = value of every MILP variable in HiGHS' solution, `op place` =
//!     which task ids went to which worker),
//!   * after `op schedule`: the batches and the MILP *as the real code built them* (recorded by the hooks in
//!     `tako::verif::sched_c15`), the ids `take_tasks` popped, the queues left, and the verdicts
//!     feasible / optimal / fragment / c15 — which the harness computes with its own (Rust) copy of the
//!     modelled encoding and the Lean driver recomputes from the Lean model.
//! Monitor `c15.priority`: brute-force evaluation of the pair condition of C15 on the REAL placement.
//!
//! Request classes range over TWO resource kinds: cpus (always asked for) and gpus (optional; a worker may lack them).
//! Amounts are whole units. A task "fits" iff every kind it asks for fits.
use std::collections::{BTreeMap, BTreeSet};
use std::time::{Duration, Instant};

use smallvec::smallvec;
use tako::events::EventProcessor;
use tako::gateway::{
    CrashLimit, LostWorkerReason, ResourceRequest, ResourceRequestEntry, ResourceRequestVariants,
    SharedTaskConfiguration, TaskConfiguration, TaskSubmit,
};
use tako::internal::messages::common::TaskFailInfo;
use tako::internal::messages::worker::{FromWorkerMessage, TaskRunningMsg, WorkerTaskUpdate};
use tako::resources::{AllocationRequest, ResourceAmount, ResourceDescriptor, ResourceDescriptorItem};
use tako::server::SchedulerConfig;
use tako::task::SerializedTaskContext;
use tako::verif::sched_c15::{Rec, RecBatch, RecMilp, VarKind};
use tako::verif::server::{SnapTaskState, VerifSchedulerResult, VerifServer};
use tako::worker::{ServerLostPolicy, WorkerConfiguration, WorkerOverview};
use tako::{InstanceId, JobId, JobTaskId, ResourceVariantId, TaskId, UserPriority, WorkerId};

use crate::util::{GenArgs, Rng, Trace, catch, list};

const UNIT: u64 = 10_000;

fn tid(t: TaskId) -> String {
    format!("{}.{}", t.job_id().as_num(), t.job_task_id().as_num())
}

fn parse_tid(s: &str) -> TaskId {
    let (a, b) = s.split_once('.').expect("task id j.t");
    TaskId::new(JobId::new(a.parse().unwrap()), JobTaskId::new(b.parse().unwrap()))
}

// ------------------------------------------------------------------------------------------------
// specification of a case (what the generator chooses / what a replay file describes)

#[derive(Debug, Clone)]
struct WorkerSpec {
    cpus: u32,
    /// units of the second resource kind (0 = the worker does not have it)
    gpus: u32,
    /// request classes (index into `Spec::classes`) of the tasks that keep the worker busy
    pre: Vec<usize>,
    /// request classes the worker has rejected (blocked)
    blocked: Vec<usize>,
}

#[derive(Debug, Clone)]
struct Spec {
    /// (cpu amount, gpu amount (0 = no entry) in whole units, weight in 1/10000) per request class, in creation
    /// order (= rq id order)
    classes: Vec<(u32, u32, u64)>,
    workers: Vec<WorkerSpec>,
    /// ready tasks: (id, class index, user priority)
    tasks: Vec<(TaskId, usize, i32)>,
    running: bool,
}

// ------------------------------------------------------------------------------------------------
// the instance as read back from the real core

#[derive(Debug, Clone)]
struct WorkerI {
    id: u32,
    total: u64,
    free: u64,
    /// rq ids of the tasks reserved on the worker
    assigned: Vec<u32>,
    blocked: Vec<u32>,
    /// second resource kind (0 = absent)
    total2: u64,
    free2: u64,
}

#[derive(Debug, Clone)]
struct ClassI {
    need: u64,
    weight: u64,
    /// second resource kind (0 = no entry in the request)
    need2: u64,
}

/// `WorkerResources::task_max_count_for_request` over the two kinds
fn fit_count(a1: u64, a2: u64, n1: u64, n2: u64) -> u64 {
    if n2 == 0 { a1 / n1 } else { (a1 / n1).min(a2 / n2) }
}

impl ClassI {
    /// `is_capable_to_run_request` against the total resources
    fn capable(&self, w: &WorkerI) -> bool {
        self.need <= w.total && self.need2 <= w.total2
    }
    /// `have_immediate_resources_for_rq`
    fn fits_now(&self, w: &WorkerI) -> bool {
        self.need <= w.free && self.need2 <= w.free2
    }
    fn count_now(&self, w: &WorkerI) -> u64 {
        fit_count(w.free, w.free2, self.need, self.need2)
    }
}

#[derive(Debug, Clone)]
struct Inst {
    workers: Vec<WorkerI>,
    classes: Vec<ClassI>,
    /// per rq id: (user priority, ids ascending) in descending priority
    queues: Vec<Vec<(i64, Vec<TaskId>)>>,
}

impl Inst {
    fn prio_of(&self) -> BTreeMap<TaskId, (u32, i64)> {
        let mut m = BTreeMap::new();
        for (rq, q) in self.queues.iter().enumerate() {
            for (p, ids) in q {
                for t in ids {
                    m.insert(*t, (rq as u32, *p));
                }
            }
        }
        m
    }
    fn ready_classes(&self) -> usize {
        self.queues.iter().filter(|q| !q.is_empty()).count()
    }
}

struct NoEvents;
impl EventProcessor for NoEvents {
    fn on_task_finished(&mut self, _task_id: TaskId) {}
    fn on_task_started(
        &mut self,
        _task_id: TaskId,
        _instance_id: InstanceId,
        _worker_ids: &[WorkerId],
        _rv_id: ResourceVariantId,
        _context: SerializedTaskContext,
    ) {
    }
    fn on_task_error(&mut self, _task_id: TaskId, _consumers_id: Vec<TaskId>, _error_info: TaskFailInfo) -> Vec<TaskId> {
        Vec::new()
    }
    fn on_worker_new(&mut self, _worker_id: WorkerId, _configuration: &WorkerConfiguration) {}
    fn on_worker_lost(&mut self, _worker_id: WorkerId, _running_tasks: &[TaskId], _reason: LostWorkerReason) {}
    fn on_worker_overview(&mut self, _overview: Box<WorkerOverview>) {}
    fn on_task_notify(&mut self, _task_id: TaskId, _worker_id: WorkerId, _message: Box<[u8]>) {}
}

fn worker_config(n: u32, cpus: u32, gpus: u32) -> WorkerConfiguration {
    let resources = if gpus == 0 {
        ResourceDescriptor::simple_cpus(cpus)
    } else {
        let mut d = ResourceDescriptor::simple_cpus(cpus);
        d.resources.push(ResourceDescriptorItem::range("gpus", 0, gpus - 1));
        d
    };
    WorkerConfiguration {
        resources,
        listen_address: format!("1.1.1.{n}:123"),
        hostname: format!("test{n}"),
        group: "default".to_string(),
        work_dir: Default::default(),
        heartbeat_interval: Duration::from_millis(1000),
        overview_configuration: Default::default(),
        idle_timeout: None,
        time_limit: None,
        retract_check_interval: Duration::from_secs(30),
        on_server_lost: ServerLostPolicy::Stop,
        min_utilization: 0.0,
        extra: Default::default(),
    }
}

fn class_rq(cpus: u32, gpus: u32, weight: u64) -> ResourceRequestVariants {
    let mut resources = smallvec![ResourceRequestEntry {
        resource: "cpus".to_string(),
        policy: AllocationRequest::Compact(ResourceAmount::new_units(cpus)),
    }];
    if gpus > 0 {
        resources.push(ResourceRequestEntry {
            resource: "gpus".to_string(),
            policy: AllocationRequest::Compact(ResourceAmount::new_units(gpus)),
        });
    }
    ResourceRequestVariants::new_simple(ResourceRequest {
        n_nodes: 0,
        resources,
        min_time: Default::default(),
        weight: tako::resources::ResourceWeight::try_from(weight as f32 / 10_000.0).expect("weight"),
    })
}

fn decode_priority(raw: u64) -> i64 {
    // inverse of Priority::from_user_priority on its image
    (((raw >> 32) as u32) ^ 0x8000_0000) as i32 as i64
}

struct Real {
    server: VerifServer,
    now: Instant,
    rq_ids: Vec<tako::resources::ResourceRqId>,
}

fn submit(real: &Real, tasks: &[(TaskId, usize, i32)]) {
    if tasks.is_empty() {
        return;
    }
    let mut shared: Vec<SharedTaskConfiguration> = Vec::new();
    let mut prios: Vec<i32> = Vec::new();
    let mut confs = Vec::new();
    for (id, class, prio) in tasks {
        let idx = match prios.iter().position(|p| p == prio) {
            Some(i) => i,
            None => {
                prios.push(*prio);
                shared.push(SharedTaskConfiguration {
                    time_limit: None,
                    priority: UserPriority::new(*prio),
                    crash_limit: CrashLimit::MaxCrashes(5),
                    body: Vec::<u8>::new().into(),
                });
                prios.len() - 1
            }
        };
        confs.push(TaskConfiguration {
            id: *id,
            resource_rq_id: real.rq_ids[*class],
            shared_data_index: idx as u32,
            task_deps: Default::default(),
            entry: None,
        });
    }
    real.server
        .server_ref()
        .add_new_tasks(TaskSubmit { tasks: confs, shared_data: shared, adjust_instance_id_and_crash_counters: Default::default() })
        .expect("add_new_tasks");
}

/// Builds the real server in the state the spec describes. Err = the setup did not come out as intended.
fn build_real(spec: &Spec) -> Result<Real, String> {
    let server = VerifServer::new(
        "verif".to_string(),
        WorkerId::new(0),
        SchedulerConfig {
            proactive_filling_reserve: 1_000_000,
            proactive_filling_max: 1,
            mip_time_limit: Duration::from_secs(20),
        },
    );
    server.set_client_events(Box::new(NoEvents));
    let mut real = Real { server, now: Instant::now(), rq_ids: Vec::new() };
    for (cpus, gpus, weight) in &spec.classes {
        let id = real.server.server_ref().get_or_create_resource_rq_id(&class_rq(*cpus, *gpus, *weight));
        real.rq_ids.push(id);
    }
    // filler class: 1 cpu, nothing else (may coincide with a class of the spec)
    let filler_class = match spec.classes.iter().position(|c| c.0 == 1 && c.1 == 0) {
        Some(i) => i,
        None => {
            let id = real.server.server_ref().get_or_create_resource_rq_id(&class_rq(1, 0, 10_000));
            real.rq_ids.push(id);
            real.rq_ids.len() - 1
        }
    };
    let mut fillers: Vec<TaskId> = Vec::new();
    let mut pre_ids: Vec<(TaskId, WorkerId)> = Vec::new();
    for (j, w) in spec.workers.iter().enumerate() {
        let (wid, _) = real.server.add_worker(worker_config(j as u32 + 1, w.cpus, w.gpus), real.now);
        // the worker is filled completely (tasks that keep it busy + rejected dummies + 1-cpu fillers) while it is
        // the only one with free resources, so everything lands on it; dummies and fillers are cancelled afterwards
        let job = JobId::new(9000 + j as u32);
        let mut batch: Vec<(TaskId, usize, i32)> = Vec::new();
        let mut used = 0u32;
        let mut used2 = 0u32;
        let mut n = 0u32;
        for c in &w.pre {
            batch.push((TaskId::new(job, JobTaskId::new(n)), *c, 0));
            used += spec.classes[*c].0;
            used2 += spec.classes[*c].1;
            n += 1;
        }
        let mut dummies = Vec::new();
        for c in &w.blocked {
            let t = TaskId::new(job, JobTaskId::new(n));
            batch.push((t, *c, 0));
            dummies.push(t);
            used += spec.classes[*c].0;
            used2 += spec.classes[*c].1;
            n += 1;
        }
        if used > w.cpus || used2 > w.gpus {
            return Err(format!("worker {j}: busy tasks need {used} cpus {used2} gpus > {} cpus {} gpus", w.cpus, w.gpus));
        }
        let mut my_fillers = Vec::new();
        for _ in used..w.cpus {
            let t = TaskId::new(job, JobTaskId::new(n));
            batch.push((t, filler_class, 0));
            my_fillers.push(t);
            n += 1;
        }
        submit(&real, &batch);
        if !batch.is_empty() {
            let r = real.server.run_scheduling(real.now);
            if r != VerifSchedulerResult::Done {
                return Err(format!("setup round of worker {j}: {r:?}"));
            }
        }
        let snap = real.server.core_snapshot();
        for (t, _, _) in &batch {
            let st = &snap.tasks.iter().find(|x| x.id == *t).unwrap().state;
            match st {
                SnapTaskState::Assigned(x, _) if *x == wid.as_num() => {}
                other => return Err(format!("setup: task {} of worker {j} is {other:?}", tid(*t))),
            }
        }
        if !dummies.is_empty() {
            for t in &dummies {
                real.server.deliver(
                    wid,
                    FromWorkerMessage::TaskUpdate(smallvec![WorkerTaskUpdate::RejectRequest {
                        task_id: *t,
                        rv_id: Some(ResourceVariantId::new(0)),
                    }]),
                );
            }
            // the rejected dummies leave; their room is filled again so that later workers' tasks cannot land here
            real.server.server_ref().cancel_tasks(&dummies);
            let mut refill: Vec<(TaskId, usize, i32)> = Vec::new();
            let freed: u32 = w.blocked.iter().map(|c| spec.classes[*c].0).sum();
            for _ in 0..freed {
                let t = TaskId::new(job, JobTaskId::new(n));
                refill.push((t, filler_class, 0));
                my_fillers.push(t);
                n += 1;
            }
            submit(&real, &refill);
            let r = real.server.run_scheduling(real.now);
            if r != VerifSchedulerResult::Done {
                return Err(format!("setup refill round of worker {j}: {r:?}"));
            }
            let snap = real.server.core_snapshot();
            for (t, _, _) in &refill {
                let st = &snap.tasks.iter().find(|x| x.id == *t).unwrap().state;
                match st {
                    SnapTaskState::Assigned(x, _) if *x == wid.as_num() => {}
                    other => return Err(format!("setup: refill task {} of worker {j} is {other:?}", tid(*t))),
                }
            }
        }
        // fillers of this worker stay until all workers exist
        fillers.extend(my_fillers);
        for c in 0..w.pre.len() {
            pre_ids.push((TaskId::new(job, JobTaskId::new(c as u32)), wid));
        }
    }
    if !fillers.is_empty() {
        real.server.server_ref().cancel_tasks(&fillers);
    }
    if spec.running {
        for (t, w) in &pre_ids {
            real.server.deliver(
                *w,
                FromWorkerMessage::TaskUpdate(smallvec![WorkerTaskUpdate::Running(TaskRunningMsg {
                    task_id: *t,
                    rv_id: ResourceVariantId::new(0),
                    context: Default::default(),
                })]),
            );
        }
    }
    for w in real.server.connected_workers() {
        real.server.drain_messages(w);
    }
    tako::verif::sched::take();
    tako::verif::sched_c15::take();
    submit(&real, &spec.tasks);
    Ok(real)
}

fn read_instance(real: &Real) -> Result<Inst, String> {
    let snap = real.server.core_snapshot();
    let core_classes = tako::verif::sched_c15::classes(&real.server);
    let mut classes = Vec::new();
    for c in &core_classes {
        if c.len() != 1 {
            return Err("multi-variant class".into());
        }
        let v = &c[0];
        if v.n_nodes != 0 || v.entries.is_empty() || v.entries.len() > 2 || v.min_time_ms != 0 {
            return Err("class outside the two-kind single-node fragment".into());
        }
        let mut need = 0;
        let mut need2 = 0;
        for (rid, amount) in &v.entries {
            let a = amount.ok_or("all-request")?;
            match rid {
                0 => need = a,
                1 => need2 = a,
                _ => return Err("third resource kind".into()),
            }
        }
        if need == 0 || (v.entries.len() == 2 && need2 == 0) {
            return Err("class without cpus / zero entry".into());
        }
        classes.push(ClassI { need, weight: v.weight, need2 });
    }
    let mut task_rq = BTreeMap::new();
    for t in &snap.tasks {
        task_rq.insert(t.id, t.rq);
    }
    let mut workers = Vec::new();
    for w in &snap.workers {
        let Some((assigned, free, prefilled)) = &w.sn else { return Err("mn worker".into()) };
        if !prefilled.is_empty() || w.total.is_empty() || w.total.len() > 2 || free.len() != w.total.len() || w.stopping {
            return Err("worker outside the fragment".into());
        }
        let mut a: Vec<u32> = assigned.iter().map(|t| task_rq[t]).collect();
        a.sort();
        let mut blocked = Vec::new();
        for (rq, v) in &w.blocked {
            if *v != 0 {
                return Err("blocked variant".into());
            }
            blocked.push(*rq);
        }
        workers.push(WorkerI {
            id: w.id,
            total: w.total[0],
            free: free[0],
            assigned: a,
            blocked,
            total2: w.total.get(1).copied().unwrap_or(0),
            free2: free.get(1).copied().unwrap_or(0),
        });
    }
    if !snap.redirects.is_empty() {
        return Err("redirects".into());
    }
    let mut queues = Vec::new();
    for q in &snap.queues {
        if q.prefill.is_some() {
            return Err("prefill".into());
        }
        queues.push(q.ready.iter().map(|(p, ids)| (decode_priority(*p), ids.clone())).collect::<Vec<_>>());
    }
    while queues.len() < classes.len() {
        queues.push(Vec::new());
    }
    Ok(Inst { workers, classes, queues })
}

// ------------------------------------------------------------------------------------------------
// the harness' own copy of the modelled encoding (written from the Lean model's description, not by calling
// the scheduler): batches, MILP rows with exact integer coefficients, exhaustive optimum

#[derive(Debug, Clone, PartialEq, Eq)]
struct MBatch {
    rq: u32,
    size: u64,
    limit: u64,
    reached: bool,
    blocker: bool,
    cuts: Vec<(u64, Vec<(u32, Option<u64>)>)>,
}

fn model_batches(inst: &Inst) -> Vec<MBatch> {
    let qs: Vec<u32> = (0..inst.queues.len() as u32).filter(|c| !inst.queues[*c as usize].is_empty()).collect();
    let mut bs: Vec<MBatch> = qs
        .iter()
        .map(|rq| {
            let c = &inst.classes[*rq as usize];
            let limit = inst.workers.iter().filter(|w| c.capable(w)).map(|w| c.count_now(w).max(1)).sum();
            MBatch { rq: *rq, size: 0, limit, reached: false, blocker: false, cuts: vec![] }
        })
        .collect();
    let levels: Vec<Vec<(i64, u64)>> =
        qs.iter().map(|rq| inst.queues[*rq as usize].iter().map(|(p, ids)| (*p, ids.len() as u64)).collect()).collect();
    // pos[i] = Some(index of the current level) | None = exhausted or stopped at the limit
    let mut pos: Vec<Option<usize>> = levels.iter().map(|l| if l.is_empty() { None } else { Some(0) }).collect();
    let mut unique: Option<usize> = None;
    let add = |bs: &mut Vec<MBatch>, pos: &mut Vec<Option<usize>>, i: usize| {
        let k = pos[i].unwrap();
        bs[i].size += levels[i][k].1;
        if bs[i].size > bs[i].limit {
            bs[i].size = bs[i].limit;
            bs[i].reached = true;
            pos[i] = None;
        } else {
            pos[i] = if k + 1 < levels[i].len() { Some(k + 1) } else { None };
        }
    };
    loop {
        let top = (0..bs.len()).filter_map(|i| pos[i].map(|k| levels[i][k].0)).max();
        let Some(top) = top else { break };
        let found: Vec<usize> = (0..bs.len()).filter(|i| pos[*i].map(|k| levels[*i][k].0) == Some(top)).collect();
        if found.len() == 1 && unique == Some(found[0]) {
            add(&mut bs, &mut pos, found[0]);
        } else {
            for i in &found {
                let size = bs[*i].size;
                let mut blockers = Vec::new();
                for j in 0..bs.len() {
                    if j != *i && (bs[j].size > 0 || bs[j].reached) {
                        bs[j].blocker = true;
                        blockers.push((bs[j].rq, if bs[j].reached { None } else { Some(bs[j].size) }));
                    }
                }
                if !blockers.is_empty() {
                    bs[*i].cuts.push((size, blockers));
                }
            }
            for i in &found {
                add(&mut bs, &mut pos, *i);
            }
            unique = if found.len() == 1 { Some(found[0]) } else { None };
        }
    }
    for b in &bs {
        assert!(b.cuts.len() <= 32, "prune_progressive is outside the generated space");
    }
    bs.retain(|b| b.size > 0);
    bs
}

fn of_rec_batches(bs: &[RecBatch]) -> Vec<MBatch> {
    bs.iter()
        .map(|b| MBatch {
            rq: b.rq,
            size: b.size as u64,
            limit: b.limit as u64,
            reached: b.limit_reached,
            blocker: b.is_blocker,
            cuts: b
                .cuts
                .iter()
                .map(|c| (c.size as u64, c.blockers.iter().map(|(r, s)| (*r, s.map(|x| x as u64))).collect()))
                .collect(),
        })
        .collect()
}

fn show_batch(b: &MBatch) -> String {
    let cuts = list(b.cuts.iter().map(|(k, bl)| {
        format!(
            "{k}/{}",
            bl.iter()
                .map(|(r, s)| format!("{r}:{}", s.map(|x| x.to_string()).unwrap_or("*".into())))
                .collect::<Vec<_>>()
                .join("+")
        )
    }));
    format!("batch {} size={} limit={} reached={} blocker={} cuts={}", b.rq, b.size, b.limit, b.reached as u8, b.blocker as u8, cuts)
}

/// variable of the modelled MILP; the derived order is the canonical order of the trace
#[derive(Debug, Clone, Copy, PartialEq, Eq, PartialOrd, Ord, Hash)]
enum Var {
    P(u32, u32),
    R(u32, u32),
    B(u32, u64),
}

fn show_var(v: &Var) -> String {
    match v {
        Var::P(w, c) => format!("P.{w}.{c}"),
        Var::R(w, c) => format!("R.{w}.{c}"),
        Var::B(c, s) => format!("B.{c}.{s}"),
    }
}

fn parse_var(s: &str) -> Option<Var> {
    let p: Vec<&str> = s.split('.').collect();
    if p.len() != 3 {
        return None;
    }
    let a = p[1].parse().ok()?;
    match p[0] {
        "P" => Some(Var::P(a, p[2].parse().ok()?)),
        "R" => Some(Var::R(a, p[2].parse().ok()?)),
        "B" => Some(Var::B(a, p[2].parse().ok()?)),
        _ => None,
    }
}

#[derive(Debug, Clone, PartialEq, Eq)]
struct Row {
    ge: bool,
    bound: u128,
    terms: Vec<(Var, u128)>,
}

#[derive(Debug, Clone, Default)]
struct Milp {
    /// (variable, scaled weight, upper bound of the integer box)
    vars: Vec<(Var, u128, u64)>,
    rows: Vec<Row>,
    den: u128,
}

fn gap(inst: &Inst, high: u32, low: u32, w: &WorkerI) -> u64 {
    let h = &inst.classes[high as usize];
    let l = &inst.classes[low as usize];
    let n = fit_count(w.total, w.total2, h.need, h.need2);
    let mut free = w.total.saturating_sub(h.need * n);
    let mut free2 = w.total2.saturating_sub(h.need2 * n);
    for a in &w.assigned {
        if *a != high {
            free = free.saturating_sub(inst.classes[*a as usize].need);
            free2 = free2.saturating_sub(inst.classes[*a as usize].need2);
        }
    }
    fit_count(free, free2, l.need, l.need2)
}

fn model_milp(inst: &Inst, batches: &[MBatch]) -> Milp {
    let n = inst.workers.len() as u128;
    let g: u128 = inst.workers.iter().map(|w| w.free as u128).sum();
    let g2: u128 = inst.workers.iter().map(|w| w.free2 as u128).sum();
    let (g1m, g2m) = (g.max(1), g2.max(1));
    let mut m = Milp { den: g1m * g2m * n * 1_000_000, ..Default::default() };
    let mut count_vars: BTreeMap<u32, Vec<Var>> = BTreeMap::new();
    let mut workers = inst.workers.clone();
    workers.sort_by_key(|w| w.id);
    for (widx, w) in workers.iter().enumerate() {
        let mut terms = Vec::new();
        let mut terms2 = Vec::new();
        for b in batches {
            let c = &inst.classes[b.rq as usize];
            if !w.blocked.contains(&b.rq) && c.fits_now(w) {
                let v = Var::P(w.id, b.rq);
                // sum over the entries of the request of amount / (free amount of the kind in the cluster)
                let share = (if g == 0 { 0 } else { c.need as u128 * g2m }) + (if g2 == 0 { 0 } else { c.need2 as u128 * g1m });
                let weight = share * (n - widx as u128) * c.weight as u128 * 100;
                m.vars.push((v, weight, c.count_now(w)));
                count_vars.entry(b.rq).or_default().push(v);
                terms.push((v, c.need as u128));
                if c.need2 != 0 {
                    terms2.push((v, c.need2 as u128));
                }
            } else if b.blocker && c.capable(w) {
                let v = Var::R(w.id, b.rq);
                m.vars.push((v, widx as u128 * g1m * g2m * 10_000, 1));
                count_vars.entry(b.rq).or_default().push(v);
                if w.free != 0 {
                    terms.push((v, w.free as u128));
                }
                if w.free2 != 0 {
                    terms2.push((v, w.free2 as u128));
                }
            }
        }
        if !terms.is_empty() {
            m.rows.push(Row { ge: false, bound: w.free as u128, terms });
        }
        if !terms2.is_empty() {
            m.rows.push(Row { ge: false, bound: w.free2 as u128, terms: terms2 });
        }
    }
    let mut bvars: BTreeSet<(u32, u64)> = BTreeSet::new();
    for b in batches {
        let Some(cv) = count_vars.get(&b.rq).cloned() else { continue };
        if !b.reached {
            m.rows.push(Row { ge: false, bound: b.size as u128, terms: cv.iter().map(|v| (*v, 1)).collect() });
        }
        let mut unbounded_done: BTreeSet<u32> = BTreeSet::new();
        for (cut, blockers) in &b.cuts {
            for (brq, bsize) in blockers {
                // B(brq, s), created on first use, only when the blocking class has count variables
                let mut bvar = |m: &mut Milp, s: u64| -> Option<Var> {
                    let vars = count_vars.get(brq)?;
                    let v = Var::B(*brq, s);
                    if bvars.insert((*brq, s)) {
                        m.vars.push((v, 0, 1));
                        let mut terms: Vec<(Var, u128)> = vars.iter().map(|x| (*x, 1)).collect();
                        terms.push((v, s as u128));
                        m.rows.push(Row { ge: true, bound: s as u128, terms });
                    }
                    Some(v)
                };
                let mut zero: Vec<Var> = Vec::new();
                for w in &workers {
                    if !inst.classes[*brq as usize].capable(w) {
                        continue;
                    }
                    let p = Var::P(w.id, b.rq);
                    let has_p = m.vars.iter().any(|x| x.0 == p);
                    let gp = gap(inst, *brq, b.rq, w);
                    if gp > 0 {
                        let mut terms: Vec<(Var, u128)> = if has_p { vec![(p, 1)] } else { vec![] };
                        match bsize {
                            Some(s) => {
                                if let Some(bv) = bvar(&mut m, *s) {
                                    terms.push((bv, b.size as u128));
                                    m.rows.push(Row { ge: false, bound: (*cut + b.size + gp) as u128, terms });
                                }
                            }
                            None => m.rows.push(Row { ge: false, bound: (*cut + gp) as u128, terms }),
                        }
                    } else if has_p {
                        zero.push(p);
                    }
                }
                if zero.is_empty() {
                    continue;
                }
                let mut terms: Vec<(Var, u128)> = zero.iter().map(|x| (*x, 1)).collect();
                match bsize {
                    Some(s) => {
                        if let Some(bv) = bvar(&mut m, *s) {
                            terms.push((bv, b.size as u128));
                            m.rows.push(Row { ge: false, bound: (b.size + *cut) as u128, terms });
                        }
                    }
                    None => {
                        if unbounded_done.insert(*brq) {
                            m.rows.push(Row { ge: false, bound: *cut as u128, terms });
                        }
                    }
                }
            }
        }
    }
    m
}

fn gcd(a: u128, b: u128) -> u128 {
    if b == 0 { a } else { gcd(b, a % b) }
}

/// canonical text of a row: terms sorted by variable, equal variables merged, everything divided by the gcd
fn show_row(r: &Row) -> String {
    let mut terms: BTreeMap<Var, u128> = BTreeMap::new();
    for (v, c) in &r.terms {
        *terms.entry(*v).or_default() += *c;
    }
    let mut g = r.bound;
    for c in terms.values() {
        g = gcd(g, *c);
    }
    let g = g.max(1);
    let t = list(terms.iter().map(|(v, c)| format!("{}*{}", c / g, show_var(v))));
    format!("row {} {} {}", if r.ge { "ge" } else { "le" }, r.bound / g, t)
}

type Assign = BTreeMap<Var, u64>;

fn row_holds(r: &Row, x: &Assign) -> bool {
    let s: u128 = r.terms.iter().map(|(v, c)| *c * *x.get(v).unwrap_or(&0) as u128).sum();
    if r.ge { s >= r.bound } else { s <= r.bound }
}

fn feasible(m: &Milp, x: &Assign) -> bool {
    m.vars.iter().all(|(v, _, _)| match v {
        Var::P(..) => true,
        _ => *x.get(v).unwrap_or(&0) <= 1,
    }) && m.rows.iter().all(|r| row_holds(r, x))
}

fn objective(m: &Milp, x: &Assign) -> u128 {
    m.vars.iter().map(|(v, w, _)| *w * *x.get(v).unwrap_or(&0) as u128).sum()
}

/// exhaustive optimum over the integer box (P ≤ free/need, R, B ≤ 1); the B variables have weight 0 and only
/// relax `ge` rows / tighten `le` rows, so for fixed P, R the smallest feasible B is taken
fn brute_best(m: &Milp) -> Option<u128> {
    let pr: Vec<(Var, u128, u64)> = m.vars.iter().filter(|v| !matches!(v.0, Var::B(..))).cloned().collect();
    let bs: Vec<Var> = m.vars.iter().filter(|v| matches!(v.0, Var::B(..))).map(|v| v.0).collect();
    let le_rows: Vec<&Row> = m.rows.iter().filter(|r| !r.ge).collect();
    let mut best: Option<u128> = None;
    let mut x: Assign = BTreeMap::new();
    fn rec(
        i: usize,
        pr: &[(Var, u128, u64)],
        bs: &[Var],
        m: &Milp,
        le_rows: &[&Row],
        x: &mut Assign,
        best: &mut Option<u128>,
    ) {
        if i == pr.len() {
            for b in bs {
                x.insert(*b, 0);
            }
            for b in bs {
                let ok0 = m.rows.iter().filter(|r| r.ge && r.terms.iter().any(|t| t.0 == *b)).all(|r| row_holds(r, x));
                if !ok0 {
                    x.insert(*b, 1);
                }
            }
            if feasible(m, x) {
                let o = objective(m, x);
                if best.is_none_or(|b| o > b) {
                    *best = Some(o);
                }
            }
            for b in bs {
                x.remove(b);
            }
            return;
        }
        let (v, _, ub) = pr[i];
        for val in 0..=ub {
            x.insert(v, val);
            // prune: le rows have non-negative coefficients
            if le_rows.iter().all(|r| {
                let s: u128 = r.terms.iter().map(|(v, c)| *c * *x.get(v).unwrap_or(&0) as u128).sum();
                s <= r.bound
            }) {
                rec(i + 1, pr, bs, m, le_rows, x, best);
            }
        }
        x.remove(&v);
    }
    rec(0, &pr, &bs, m, &le_rows, &mut x, &mut best);
    best
}

// ------------------------------------------------------------------------------------------------
// the C15 pair condition, evaluated on the real placement (independent of the MILP)

struct PairViolation {
    high: TaskId,
    low: TaskId,
    worker: u32,
}

fn c15_pairs(inst: &Inst, placed: &BTreeMap<TaskId, u32>) -> Vec<PairViolation> {
    let info = inst.prio_of();
    let mut res = Vec::new();
    for (h, (hc, hp)) in &info {
        if placed.contains_key(h) {
            continue;
        }
        let ch = &inst.classes[*hc as usize];
        // the documented exception: another capable worker is too busy to start it now
        let waits_for_busy = |w: &WorkerI| inst.workers.iter().any(|o| o.id != w.id && ch.capable(o) && !ch.fits_now(o));
        for w in &inst.workers {
            if w.blocked.contains(hc) {
                continue;
            }
            // what the tasks of at least h's priority dispatched here take, per resource kind
            let kept = |f: &dyn Fn(&ClassI) -> u64| -> u64 {
                placed
                    .iter()
                    .filter(|(t, pw)| **pw == w.id && info[*t].1 >= *hp)
                    .map(|(t, _)| f(&inst.classes[info[t].0 as usize]))
                    .sum()
            };
            // h fits iff EVERY kind fits
            if kept(&|c| c.need) + ch.need > w.free || kept(&|c| c.need2) + ch.need2 > w.free2 {
                continue;
            }
            if waits_for_busy(w) {
                continue;
            }
            for (l, pw) in placed {
                if *pw == w.id && info[l].1 < *hp {
                    res.push(PairViolation { high: *h, low: *l, worker: w.id });
                }
            }
        }
    }
    res
}

fn fragment(inst: &Inst) -> &'static str {
    let rc = inst.ready_classes();
    if rc <= 1 {
        "F1"
    } else if inst.workers.len() == 1
        && rc <= 2
        // F2 is proved for ready classes that ask for cpus only (`Instance.CpuOnly`)
        && inst.queues.iter().enumerate().all(|(c, q)| q.is_empty() || inst.classes[c].need2 == 0)
        && inst.classes.iter().all(|c| c.weight == 10_000)
        && inst.queues.iter().flatten().map(|l| l.0).collect::<BTreeSet<_>>().len() <= 32
    {
        "F2"
    } else {
        "out"
    }
}

// ------------------------------------------------------------------------------------------------
// one case

fn scaled_weight(w: f64, den: u128) -> Option<u128> {
    let x = w * den as f64;
    let r = x.round();
    if r < 0.0 || (x - r).abs() > 1e-4 * (1.0 + r.abs() * 1e-9) {
        None
    } else {
        Some(r as u128)
    }
}

/// Is the recorded `f64` weight the exact rational `k / den` up to the rounding of the few float operations that
/// produced it? (absolute 1e-4 on the scaled value for small denominators, relative 1e-12 for large ones: with two
/// resource kinds `den` exceeds 2^53, so the scaled weight is not an exactly representable integer any more; a wrong
/// formula is off by percents, not by 1e-12)
fn weight_matches(w: f64, k: u128, den: u128) -> bool {
    let x = w * den as f64;
    (x - k as f64).abs() <= 1e-4 + 1e-12 * k as f64
}

fn int_coef(x: f64) -> Option<u128> {
    let y = x * UNIT as f64;
    let r = y.round();
    if r < 0.0 || (y - r).abs() > 1e-6 { None } else { Some(r as u128) }
}

fn var_of_kind(k: &VarKind) -> Option<Var> {
    match k {
        VarKind::Placement { worker, rq, variant: 0 } => Some(Var::P(*worker, *rq)),
        VarKind::Reservation { worker, rq } => Some(Var::R(*worker, *rq)),
        VarKind::Blocker { rq, size } => Some(Var::B(*rq, *size as u64)),
        _ => None,
    }
}

fn print_instance(t: &mut Trace, inst: &Inst) {
    for w in &inst.workers {
        t.op(&format!(
            "worker {} {} {} {} {} {} {}",
            w.id,
            w.total,
            w.free,
            list(w.assigned.iter()),
            list(w.blocked.iter()),
            w.total2,
            w.free2
        ));
    }
    for (rq, c) in inst.classes.iter().enumerate() {
        t.op(&format!("class {rq} {} {} {}", c.need, c.weight, c.need2));
    }
    for (rq, q) in inst.queues.iter().enumerate() {
        t.op(&format!(
            "queue {rq} {}",
            list(q.iter().map(|(p, ids)| format!("{p}:{}", ids.iter().map(|x| tid(*x)).collect::<Vec<_>>().join("+"))))
        ));
    }
}

fn run_case(t: &mut Trace, idx: u64, subseed: u64, spec: &Spec, stats: &mut Stats) {
    let header = format!(
        "nw={} nc={} nt={} busy={} blocked={} gpuw={} gpuc={}",
        spec.workers.len(),
        spec.classes.len(),
        spec.tasks.len(),
        spec.workers.iter().map(|w| w.pre.len()).sum::<usize>(),
        spec.workers.iter().map(|w| w.blocked.len()).sum::<usize>(),
        spec.workers.iter().filter(|w| w.gpus > 0).count(),
        spec.classes.iter().filter(|c| c.1 > 0).count()
    );
    t.case(idx, subseed, &header);
    let real = match catch(|| build_real(spec)) {
        Ok(Ok(r)) => r,
        Ok(Err(e)) => {
            stats.skip_reasons.push(format!("case {idx}: {e}"));
            stats.skipped += 1;
            t.end();
            return;
        }
        Err(p) => {
            t.op("setup");
            t.out(&format!("!panic {p}"));
            t.end();
            return;
        }
    };
    let inst = match read_instance(&real) {
        Ok(i) => i,
        Err(e) => {
            stats.skip_reasons.push(format!("case {idx}: outside the modelled space: {e}"));
            stats.skipped += 1;
            t.end();
            return;
        }
    };
    print_instance(t, &inst);
    let mut real = real;
    let result = catch(|| real.server.run_scheduling(real.now));
    let result = match result {
        Ok(r) => r,
        Err(p) => {
            t.op("schedule panic");
            t.out(&format!("!panic {p}"));
            t.end();
            return;
        }
    };
    let sn = tako::verif::sched::take();
    let recs = tako::verif::sched_c15::take();
    let mut rec_batches: Option<Vec<RecBatch>> = None;
    let mut rec_milp: Option<RecMilp> = None;
    for r in recs {
        match r {
            Rec::Batches(b) => rec_batches = Some(b),
            Rec::Milp(m) => rec_milp = Some(m),
        }
    }
    let after = real.server.core_snapshot();
    // placement of this round: ready tasks that are now assigned
    let info = inst.prio_of();
    let mut placed: BTreeMap<TaskId, u32> = BTreeMap::new();
    for task in &after.tasks {
        if info.contains_key(&task.id)
            && let SnapTaskState::Assigned(w, _) = task.state
        {
            placed.insert(task.id, w);
        }
    }
    // solution values of the real MILP
    let mut sol: Assign = BTreeMap::new();
    let mut unnamed = 0;
    if let Some(m) = &rec_milp {
        for v in &m.vars {
            match var_of_kind(&v.kind) {
                Some(var) => {
                    let val = m.values.get(v.index).copied().unwrap_or(0.0);
                    sol.insert(var, val.round().max(0.0) as u64);
                }
                None => unnamed += 1,
            }
        }
    }
    t.op(&format!("sol {}", list(sol.iter().map(|(v, x)| format!("{}={x}", show_var(v))))));
    for w in &inst.workers {
        let ids: Vec<String> = placed.iter().filter(|(_, pw)| **pw == w.id).map(|(x, _)| tid(*x)).collect();
        t.op(&format!("place {} {}", w.id, list(ids)));
    }
    let status = match result {
        VerifSchedulerResult::Done => "done",
        VerifSchedulerResult::NeedMoreCompute => "needmore",
        VerifSchedulerResult::NoProgress => "noprogress",
    };
    t.op(&format!("schedule {status}"));

    // --- what the real code built
    let real_batches = of_rec_batches(rec_batches.as_deref().unwrap_or(&[]));
    for b in &real_batches {
        t.out(&show_batch(b));
    }
    let mbatches = model_batches(&inst);
    let mm = model_milp(&inst, &mbatches);
    t.out(&format!("den {}", mm.den));
    let mut real_rows: Vec<String> = Vec::new();
    let mut real_vars: Vec<String> = Vec::new();
    if let Some(m) = &rec_milp {
        let names: BTreeMap<usize, Var> = m.vars.iter().filter_map(|v| var_of_kind(&v.kind).map(|x| (v.index, x))).collect();
        let mut vs: Vec<(Var, String)> = Vec::new();
        // the exact scaled weight the harness' copy of the encoding expects for the variable: printed when the
        // recorded f64 weight equals it up to float rounding, otherwise the rounded value of the f64 is printed
        let expected: BTreeMap<Var, u128> = mm.vars.iter().map(|(v, w, _)| (*v, *w)).collect();
        for v in &m.vars {
            if let Some(var) = names.get(&v.index) {
                let w = match expected.get(var) {
                    Some(k) if weight_matches(v.weight, *k, mm.den) => k.to_string(),
                    _ => scaled_weight(v.weight, mm.den).map(|x| format!("{x} !differs")).unwrap_or("!inexact".into()),
                };
                let dom = match (var, v.domain) {
                    (Var::P(..), 2) | (Var::R(..), 1) | (Var::B(..), 1) => "",
                    _ => " !domain",
                };
                vs.push((*var, format!("var {} {w}{dom}", show_var(var))));
            }
        }
        vs.sort();
        real_vars = vs.into_iter().map(|x| x.1).collect();
        for r in &m.rows {
            let mut terms = Vec::new();
            let mut bad = unnamed > 0 && r.terms.iter().any(|(i, _)| !names.contains_key(i));
            for (i, c) in &r.terms {
                match (names.get(i), int_coef(*c)) {
                    (Some(v), Some(c)) => terms.push((*v, c)),
                    _ => bad = true,
                }
            }
            match (int_coef(r.bound), r.ty, bad) {
                (Some(b), 0 | 1, false) => real_rows.push(show_row(&Row { ge: r.ty == 0, bound: b, terms })),
                _ => real_rows.push("row !unmodelled".to_string()),
            }
        }
        real_rows.sort();
    }
    for v in &real_vars {
        t.out(v);
    }
    for r in &real_rows {
        t.out(r);
    }
    // --- take_tasks and the queues left
    let mut taken_lines: Vec<(u32, String)> = Vec::new();
    for r in &sn {
        if let tako::verif::sched::Record::Sn { rq, variant, counts, taken } = r {
            let mut c = counts.clone();
            c.sort();
            taken_lines.push((
                *rq,
                format!(
                    "taken {rq} {variant} {} {}",
                    list(c.iter().map(|(w, n)| format!("{w}={n}"))),
                    list(taken.iter().map(|x| tid(*x)))
                ),
            ));
        }
    }
    taken_lines.sort();
    for (_, l) in &taken_lines {
        t.out(l);
    }
    for (rq, q) in after.queues.iter().enumerate() {
        t.out(&format!(
            "left {rq} {}",
            list(q.ready.iter().map(|(p, ids)| format!("{}:{}", decode_priority(*p), ids.iter().map(|x| tid(*x)).collect::<Vec<_>>().join("+"))))
        ));
    }
    // --- verdicts (harness copy of the modelled encoding; the Lean driver recomputes them from the Lean model)
    let model_rows: Vec<String> = {
        let mut r: Vec<String> = mm.rows.iter().map(show_row).collect();
        r.sort();
        r
    };
    let model_vars: Vec<String> = {
        let mut v: Vec<(Var, String)> = mm.vars.iter().map(|(v, w, _)| (*v, format!("var {} {w}", show_var(v)))).collect();
        v.sort();
        v.into_iter().map(|x| x.1).collect()
    };
    let encoding_same = mbatches == real_batches && model_rows == real_rows && model_vars == real_vars;
    // deal: every placed task was taken, per (worker, class) as many as the solution says
    let mut per: BTreeMap<(u32, u32), u64> = BTreeMap::new();
    for (task, w) in &placed {
        *per.entry((*w, info[task].0)).or_default() += 1;
    }
    let sol_p: BTreeMap<(u32, u32), u64> =
        sol.iter().filter_map(|(v, x)| if let Var::P(w, c) = v { (*x > 0).then_some(((*w, *c), *x)) } else { None }).collect();
    t.out(&format!("deal {}", if per == sol_p { "ok" } else { "mismatch" }));
    let feas = feasible(&mm, &sol) && sol.keys().all(|v| mm.vars.iter().any(|x| x.0 == *v));
    let best = brute_best(&mm);
    let obj = objective(&mm, &sol);
    let optimal = feas && best == Some(obj);
    t.out(&format!("feasible {}", feas as u8));
    t.out(&format!("objective {obj} best {}", best.map(|b| b.to_string()).unwrap_or("-".into())));
    t.out(&format!("optimal {}", optimal as u8));
    let frag = fragment(&inst);
    t.out(&format!("frag {frag}"));
    // expectation: the closed-form specification of the batches (Lean: BatchesSpec) holds for the model's batches
    t.out("spec 1");
    let pairs = c15_pairs(&inst, &placed);
    t.out(&format!("c15 {}", if pairs.is_empty() { "ok" } else { "violated" }));
    stats.cases += 1;
    *stats.frag.entry(frag).or_default() += 1;
    if result != VerifSchedulerResult::Done {
        stats.not_optimal += 1;
    } else if let Some(p) = pairs.first() {
        let sig = match (frag, encoding_same && optimal) {
            ("out", true) => "outside-F-optimal-for-model".to_string(),
            ("out", false) => "outside-F-not-optimal-for-model".to_string(),
            (f, true) => format!("in-{f}"),
            (f, false) => format!("in-{f}-not-optimal-for-model"),
        };
        *stats.viol.entry(frag).or_default() += 1;
        t.mon_fail(
            "c15.priority",
            &sig,
            &format!(
                "task {} (priority {}) stays ready although it fits on worker {} without the lower-priority task {} (priority {}) dispatched there; {} pair(s)",
                tid(p.high),
                info[&p.high].1,
                p.worker,
                tid(p.low),
                info[&p.low].1,
                pairs.len()
            ),
        );
    }
    if !encoding_same {
        stats.enc_differs += 1;
    }
    if !optimal {
        stats.impl_not_model_optimal += 1;
    }
    t.end();
}

#[derive(Default)]
struct Stats {
    cases: u64,
    skipped: u64,
    skip_reasons: Vec<String>,
    not_optimal: u64,
    enc_differs: u64,
    impl_not_model_optimal: u64,
    frag: BTreeMap<&'static str, u64>,
    viol: BTreeMap<&'static str, u64>,
}

// ------------------------------------------------------------------------------------------------
// generator

/// up to 8 priority levels from a palette that includes the extremes of i32
fn gen_levels(rng: &mut Rng) -> Vec<i32> {
    let palette: [i32; 10] = [0, 1, 2, 3, -1, -2, 5, 100, i32::MAX, i32::MIN];
    let n_levels = rng.range(1, 8) as usize;
    let mut levels: Vec<i32> = Vec::new();
    while levels.len() < n_levels {
        let p = if rng.chance(4, 5) { palette[rng.below(4) as usize] } else { *rng.pick(&palette) };
        if !levels.contains(&p) {
            levels.push(p);
        } else if levels.len() >= 4 && rng.chance(1, 2) {
            break;
        }
    }
    levels
}

fn gen_task_ids(rng: &mut Rng, n: u64) -> Vec<TaskId> {
    let mut ids: BTreeSet<(u32, u32)> = BTreeSet::new();
    let mut res = Vec::new();
    for _ in 0..n {
        let id = loop {
            let x = (rng.range(1, 3) as u32, rng.range(0, 30) as u32);
            if ids.insert(x) {
                break x;
            }
        };
        res.push(TaskId::new(JobId::new(id.0), JobTaskId::new(id.1)));
    }
    res
}

/// Three families: the cpu-only distribution of the first version of this component (a bit more than half of the
/// cases, so that the fragment survey stays comparable), random two-kind instances, and two-kind instances built
/// around a partly busy worker whose running task is larger than what a higher-priority class leaves over.
fn gen_spec(rng: &mut Rng, thorough: bool) -> Spec {
    match rng.weighted(&[11, 6, 3]) {
        0 => gen_spec_cpu(rng, thorough),
        1 => gen_spec_two(rng, thorough),
        _ => gen_spec_directed(rng),
    }
}

/// cpu-only request classes on workers without gpus
fn gen_spec_cpu(rng: &mut Rng, thorough: bool) -> Spec {
    let max_workers = 3;
    let nw = rng.weighted(&[3, 4, 3]) + 1;
    let nw = nw.min(max_workers);
    // request classes: distinct cpu sizes 1..4 in random order; some only used by busy tasks
    let mut sizes: Vec<u32> = vec![1, 2, 3, 4];
    for i in (1..sizes.len()).rev() {
        let j = rng.below(i as u64 + 1) as usize;
        sizes.swap(i, j);
    }
    let n_ready = rng.weighted(&[2, 4, 4]) + 1;
    let n_classes = (n_ready + rng.weighted(&[6, 3, 1])).min(4);
    // mostly the default weight; sometimes other weights (then no instance is in F2)
    let odd_weights = rng.chance(1, 6);
    let classes: Vec<(u32, u32, u64)> = sizes[..n_classes]
        .iter()
        .map(|c| (*c, 0, if odd_weights { *rng.pick(&[5_000u64, 10_000, 20_000, 100_000]) } else { 10_000 }))
        .collect();
    let busy_case = rng.chance(2, 5);
    let mut workers = Vec::new();
    for _ in 0..nw {
        let cpus = rng.range(1, 6) as u32;
        let mut pre = Vec::new();
        let mut blocked = Vec::new();
        let mut used = 0;
        if busy_case && rng.chance(2, 3) {
            for _ in 0..rng.range(1, 2) {
                let c = rng.below(n_classes as u64) as usize;
                if used + classes[c].0 <= cpus {
                    used += classes[c].0;
                    pre.push(c);
                }
            }
        }
        if rng.chance(1, 12) {
            let c = rng.below(n_classes as u64) as usize;
            // (the 1-cpu class is what the setup fills workers with, it cannot be the rejected one)
            if classes[c].0 != 1 && used + classes[c].0 <= cpus {
                blocked.push(c);
            }
        }
        workers.push(WorkerSpec { cpus, gpus: 0, pre, blocked });
    }
    let max_tasks = if thorough { 12 } else { 10 };
    let nt = rng.range(1, max_tasks);
    let levels = gen_levels(rng);
    let mut tasks = Vec::new();
    for id in gen_task_ids(rng, nt) {
        let class = rng.below(n_ready as u64) as usize;
        let prio = *rng.pick(&levels);
        tasks.push((id, class, prio));
    }
    Spec { classes, workers, tasks, running: rng.chance(1, 2) }
}

/// request classes over cpus and gpus; workers with 0..3 gpus; busy tasks of ready and of other classes
fn gen_spec_two(rng: &mut Rng, thorough: bool) -> Spec {
    let nw = rng.weighted(&[3, 4, 3]) + 1;
    let n_ready = rng.weighted(&[2, 4, 4]) + 1;
    let n_classes = (n_ready + rng.weighted(&[5, 4, 1])).min(4);
    let odd_weights = rng.chance(1, 8);
    let mut classes: Vec<(u32, u32, u64)> = Vec::new();
    while classes.len() < n_classes {
        let cpus = rng.range(1, 4) as u32;
        let gpus = rng.weighted(&[4, 4, 2]) as u32;
        if classes.iter().any(|c| c.0 == cpus && c.1 == gpus) {
            continue;
        }
        let w = if odd_weights { *rng.pick(&[5_000u64, 10_000, 20_000, 100_000]) } else { 10_000 };
        classes.push((cpus, gpus, w));
    }
    let busy_case = rng.chance(1, 2);
    let mut workers = Vec::new();
    for _ in 0..nw {
        let cpus = rng.range(1, 6) as u32;
        let gpus = rng.weighted(&[3, 3, 3, 1]) as u32;
        let mut pre = Vec::new();
        let mut blocked = Vec::new();
        let (mut used, mut used2) = (0, 0);
        if busy_case && rng.chance(2, 3) {
            for _ in 0..rng.range(1, 2) {
                let c = rng.below(n_classes as u64) as usize;
                if used + classes[c].0 <= cpus && used2 + classes[c].1 <= gpus {
                    used += classes[c].0;
                    used2 += classes[c].1;
                    pre.push(c);
                }
            }
        }
        if rng.chance(1, 12) {
            let c = rng.below(n_classes as u64) as usize;
            // (the plain 1-cpu class is what the setup fills workers with, it cannot be the rejected one)
            if !(classes[c].0 == 1 && classes[c].1 == 0) && used + classes[c].0 <= cpus && used2 + classes[c].1 <= gpus {
                blocked.push(c);
            }
        }
        workers.push(WorkerSpec { cpus, gpus, pre, blocked });
    }
    let max_tasks = if thorough { 12 } else { 10 };
    let nt = rng.range(1, max_tasks);
    let levels = gen_levels(rng);
    let mut tasks = Vec::new();
    for id in gen_task_ids(rng, nt) {
        let class = rng.below(n_ready as u64) as usize;
        let prio = *rng.pick(&levels);
        tasks.push((id, class, prio));
    }
    Spec { classes, workers, tasks, running: rng.chance(1, 2) }
}

/// A worker with gpus that runs a task of a class X; a (mostly cpu-only) class H with the higher priorities and a class
/// L that also asks for gpus with the lower ones: the gap H leaves on the worker is small, the running task may be
/// larger than it, and L weighs more than its cpus say because gpus are scarce.
fn gen_spec_directed(rng: &mut Rng) -> Spec {
    let cpus = rng.range(5, 8) as u32;
    let gpus = rng.range(1, 3) as u32;
    let x = (rng.range(2, 5).min(cpus as u64 - 2) as u32, if rng.chance(1, 4) { 1 } else { 0 });
    let h = (rng.range(2, 4) as u32, if rng.chance(1, 5) { 1 } else { 0 });
    let l = (rng.range(1, 3) as u32, rng.range(1, 2).min(gpus as u64) as u32);
    // classes in random id order; X may coincide with H or L
    let mut shapes: Vec<(u32, u32)> = vec![h];
    for s in [l, x] {
        if !shapes.contains(&s) {
            shapes.push(s);
        }
    }
    if rng.chance(1, 4) {
        let extra = (rng.range(1, 4) as u32, rng.weighted(&[3, 1]) as u32);
        if !shapes.contains(&extra) {
            shapes.push(extra);
        }
    }
    for i in (1..shapes.len()).rev() {
        let j = rng.below(i as u64 + 1) as usize;
        shapes.swap(i, j);
    }
    let idx = |s: (u32, u32)| shapes.iter().position(|y| *y == s).unwrap();
    let (hi, li, xi) = (idx(h), idx(l), idx(x));
    let odd_weights = rng.chance(1, 10);
    let classes: Vec<(u32, u32, u64)> = shapes
        .iter()
        .map(|s| (s.0, s.1, if odd_weights { *rng.pick(&[5_000u64, 10_000, 20_000]) } else { 10_000 }))
        .collect();
    // mostly one running task of class X, sometimes two, sometimes an idle worker
    let mut pre = if rng.chance(1, 5) { vec![] } else { vec![xi] };
    if !pre.is_empty() && rng.chance(1, 5) && 2 * x.0 <= cpus && 2 * x.1 <= gpus {
        pre.push(xi);
    }
    let mut workers = vec![WorkerSpec { cpus, gpus, pre, blocked: vec![] }];
    if rng.chance(3, 10) {
        let w2 = WorkerSpec { cpus: rng.range(1, 3) as u32, gpus: rng.weighted(&[2, 1]) as u32, pre: vec![], blocked: vec![] };
        if rng.chance(1, 2) {
            workers.insert(0, w2);
        } else {
            workers.push(w2);
        }
    }
    let levels: [i32; 4] = [0, 1, 2, 3];
    let ph = levels[rng.range(1, 3) as usize];
    let pl = if rng.chance(4, 5) { levels[rng.below(ph as u64) as usize] } else { *rng.pick(&levels) };
    let (nh, nl, nx) = (rng.range(1, 3), rng.range(1, 4), rng.weighted(&[5, 2, 2, 1]) as u64);
    let ids = gen_task_ids(rng, nh + nl + nx);
    let mut tasks = Vec::new();
    for (k, id) in ids.into_iter().enumerate() {
        let k = k as u64;
        if k < nh {
            tasks.push((id, hi, ph));
        } else if k < nh + nl {
            tasks.push((id, li, pl));
        } else {
            tasks.push((id, if rng.chance(1, 2) { hi } else { li }, *rng.pick(&levels)));
        }
    }
    Spec { classes, workers, tasks, running: rng.chance(1, 2) }
}

fn report(stats: &Stats) {
    for r in stats.skip_reasons.iter().take(3) {
        eprintln!("sched: skipped {r}");
    }
    eprintln!(
        "sched: cases={} skipped={} solver-not-optimal={} encoding-differs={} impl-not-optimal-for-model={} fragments={:?} c15-violations={:?}",
        stats.cases, stats.skipped, stats.not_optimal, stats.enc_differs, stats.impl_not_model_optimal, stats.frag, stats.viol
    );
}

fn generate(args: &GenArgs) {
    let mut t = Trace::new();
    let mut stats = Stats::default();
    for k in 0..args.cases {
        let subseed = args.case_seed(k);
        let mut rng = Rng::new(subseed);
        let spec = gen_spec(&mut rng, args.thorough);
        run_case(&mut t, k, subseed, &spec, &mut stats);
    }
    t.flush();
    report(&stats);
}

// ------------------------------------------------------------------------------------------------
// replay: rebuild the spec from the `op worker|class|queue` lines of a trace

fn replay() {
    use std::io::BufRead;
    let stdin = std::io::stdin();
    let mut t = Trace::new();
    let mut stats = Stats::default();
    let mut cur: Option<(u64, u64, Spec)> = None;
    for line in stdin.lock().lines() {
        let line = line.unwrap();
        let toks: Vec<&str> = line.split_whitespace().collect();
        match toks.as_slice() {
            ["case", idx, subseed, ..] => {
                cur = Some((
                    idx.parse().unwrap(),
                    subseed.parse().unwrap(),
                    Spec { classes: vec![], workers: vec![], tasks: vec![], running: false },
                ));
            }
            // `total2 free2` / `need2` (second resource kind) are absent in traces recorded before the extension
            ["op", "worker", _id, total, _free, assigned, blocked, rest @ ..] if rest.is_empty() || rest.len() == 2 => {
                if let Some((_, _, s)) = &mut cur {
                    s.workers.push(WorkerSpec {
                        cpus: (total.parse::<u64>().unwrap() / UNIT) as u32,
                        gpus: rest.first().map(|x| (x.parse::<u64>().unwrap() / UNIT) as u32).unwrap_or(0),
                        pre: crate::util::parse_list(assigned).into_iter().map(|x| x as usize).collect(),
                        blocked: crate::util::parse_list(blocked).into_iter().map(|x| x as usize).collect(),
                    });
                }
            }
            ["op", "class", _rq, need, weight, rest @ ..] if rest.len() <= 1 => {
                if let Some((_, _, s)) = &mut cur {
                    s.classes.push((
                        (need.parse::<u64>().unwrap() / UNIT) as u32,
                        rest.first().map(|x| (x.parse::<u64>().unwrap() / UNIT) as u32).unwrap_or(0),
                        weight.parse().unwrap(),
                    ));
                }
            }
            ["op", "queue", rq, entries] => {
                if let Some((_, _, s)) = &mut cur
                    && *entries != "-"
                {
                    let rq: usize = rq.parse().unwrap();
                    for e in entries.split(',') {
                        let (p, ids) = e.split_once(':').unwrap();
                        for id in ids.split('+') {
                            s.tasks.push((parse_tid(id), rq, p.parse::<i64>().unwrap() as i32));
                        }
                    }
                }
            }
            ["end"] => {
                if let Some((idx, subseed, spec)) = cur.take() {
                    run_case(&mut t, idx, subseed, &spec, &mut stats);
                }
            }
            _ => {}
        }
    }
    t.flush();
    report(&stats);
}

pub fn main(mode: &str, args: &[String]) {
    match mode {
        "gen" => generate(&GenArgs::parse(args)),
        "replay" => replay(),
        _ => {
            eprintln!("component sched: unknown mode {mode}");
            std::process::exit(2);
        }
    }
}

#[allow(dead_code)]
fn unused(_: &dyn Fn(&str) -> Option<Var>) {
    let _ = parse_var;
}
