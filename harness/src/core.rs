//! Component `core` (see /verif/FRAMEWORK.md).

pub fn main(mode: &str, _args: &[String]) {
    eprintln!("component core: mode {mode} not implemented yet");
    std::process::exit(2);
}
