//! Component `core`: the core view of a simulated cluster run (see sim.rs / coreview.rs).
use crate::sim::Sim;
use crate::util::{GenArgs, Trace};

pub fn run_case(tr: &mut Trace, idx: u64, subseed: u64, steps: u32) {
    tr.case(idx, subseed, &format!("core steps={steps} reserve=1 max=1"));
    let mut sim = Sim::new(subseed);
    for _ in 0..steps {
        if sim.panicked.is_some() {
            break;
        }
        sim.step();
    }
    if sim.panicked.is_none() {
        sim.drain(60);
    }
    for l in &sim.core.lines {
        tr.line(l);
    }
    tr.end();
}

pub fn main(mode: &str, args: &[String]) {
    let a = GenArgs::parse(args);
    let mut tr = Trace::new();
    match mode {
        "gen" => {
            let steps: u32 = a.value("--steps").map(|s| s.parse().unwrap()).unwrap_or(if a.thorough { 120 } else { 60 });
            for k in 0..a.cases {
                let subseed = a.case_seed(k);
                run_case(&mut tr, a.shard * 1_000_000 + k, subseed, steps);
            }
        }
        "case" => {
            let subseed: u64 = args[0].parse().unwrap();
            let steps: u32 = args[1].parse().unwrap();
            run_case(&mut tr, 0, subseed, steps);
        }
        _ => {
            eprintln!("component core: unknown mode {mode}");
            std::process::exit(2);
        }
    }
    tr.flush();
}
