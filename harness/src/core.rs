//! Component `core`: the core view of a simulated cluster run (see sim.rs / coreview.rs).
use crate::sim::Sim;
use crate::util::{GenArgs, Trace};

pub fn run_case(tr: &mut Trace, idx: u64, subseed: u64, steps: u32) {
    let mut sim = Sim::new(subseed);
    tr.case(idx, subseed, &format!("core steps={steps} {}", sim.header()));
    for _ in 0..steps {
        if sim.panicked.is_some() {
            break;
        }
        sim.step();
    }
    if sim.panicked.is_none() {
        sim.drain(60);
    }
    for l in &sim.core.lines {
        tr.line(l);
    }
    tr.end();
}

pub fn main(mode: &str, args: &[String]) {
    let a = GenArgs::parse(args);
    let mut tr = Trace::new();
    match mode {
        "gen" => {
            let steps: u32 = a.value("--steps").map(|s| s.parse().unwrap()).unwrap_or(if a.thorough { 120 } else { 60 });
            if let Some(d) = a.value("--exhaust") {
                // bounded exhaustive exploration: every action sequence up to depth d from the fixed small scenarios
                let depth: usize = d.parse().unwrap();
                let only: Option<u32> = a.value("--scenario").map(|s| s.parse().unwrap());
                for sc in (0..10u32).filter(|sc| only.map_or(*sc < 6, |o| o == *sc)) {
                    crate::sim::exhaust(sc, depth, a.shard, a.nshards, |sim, leaf| {
                        tr.case(a.shard * 100_000_000 + sc as u64 * 10_000_000 + leaf, 0, &format!("core exhaust={depth} scenario={sc} {}", sim.header()));
                        for l in &sim.core.lines {
                            tr.line(l);
                        }
                        tr.end();
                    });
                }
                tr.flush();
                return;
            }
            for k in 0..a.cases {
                let subseed = a.case_seed(k);
                run_case(&mut tr, a.shard * 1_000_000 + k, subseed, steps);
            }
        }
        "case" => {
            let subseed: u64 = args[0].parse().unwrap();
            let steps: u32 = args[1].parse().unwrap();
            run_case(&mut tr, 0, subseed, steps);
        }
        "replay" => {
            // trace(s) on stdin: every case is re-executed from its `act` lines
            use std::io::BufRead;
            let stdin = std::io::stdin();
            let mut header: Option<String> = None;
            let mut acts: Vec<String> = Vec::new();
            for line in stdin.lock().lines() {
                let line = line.unwrap();
                if line.starts_with("case ") {
                    header = Some(line);
                    acts.clear();
                } else if let Some(a) = line.strip_prefix("act ") {
                    acts.push(a.to_string());
                } else if line == "end" {
                    if let Some(h) = header.take() {
                        tr.line(&h);
                        let mut sim = Sim::for_replay(&h);
                        sim.replay(&acts);
                        for l in &sim.core.lines {
                            tr.line(l);
                        }
                        tr.end();
                    }
                }
            }
        }
        _ => {
            eprintln!("component core: unknown mode {mode}");
            std::process::exit(2);
        }
    }
    tr.flush();
}
