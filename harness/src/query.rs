//! Component `query` (M10): the worker query the auto-allocator asks the scheduler (`ServerRef::new_worker_query` ->
//! `compute_new_worker_query`, crates/tako/src/internal/scheduler/query.rs) on the REAL tako core: waiting multi-node
//! request classes (nodes, time request, ready tasks), waiting single-node tasks, and a list of worker types (active
//! allocation queues: time limit, workers per allocation). The multi-node answers are compared with model M10; the
//! single-node counts come from the real MILP solver on fake workers and are only sanity-checked.
//!
//! op:  `query types=<tl|-:max:sn;..> queues=<n:mt:size;..|-> sn=<count>`   (queues in rq-id order = creation order)
//! out: `mn <type:nodes:max,..|->`
use std::io::BufRead;
use std::time::Duration;

use smallvec::smallvec;
use tako::control::WorkerTypeQuery;
use tako::events::EventProcessor;
use tako::gateway::{CrashLimit, LostWorkerReason, ResourceRequest, ResourceRequestEntry, ResourceRequestVariants, SharedTaskConfiguration, TaskConfiguration, TaskSubmit};
use tako::internal::messages::common::TaskFailInfo;
use tako::resources::{AllocationRequest, ResourceAmount, ResourceDescriptor};
use tako::server::SchedulerConfig;
use tako::task::SerializedTaskContext;
use tako::verif::server::VerifServer;
use tako::worker::{WorkerConfiguration, WorkerOverview};
use tako::{InstanceId, JobId, JobTaskId, ResourceVariantId, TaskId, UserPriority, WorkerId};

use crate::util::{GenArgs, Rng, Trace, catch, list};

struct NoEvents;
impl EventProcessor for NoEvents {
    fn on_task_finished(&mut self, _: TaskId) {}
    fn on_task_started(&mut self, _: TaskId, _: InstanceId, _: &[WorkerId], _: ResourceVariantId, _: SerializedTaskContext) {}
    fn on_task_error(&mut self, _: TaskId, _: Vec<TaskId>, _: TaskFailInfo) -> Vec<TaskId> {
        Vec::new()
    }
    fn on_worker_new(&mut self, _: WorkerId, _: &WorkerConfiguration) {}
    fn on_worker_lost(&mut self, _: WorkerId, _: &[TaskId], _: LostWorkerReason) {}
    fn on_worker_overview(&mut self, _: Box<WorkerOverview>) {}
    fn on_task_notify(&mut self, _: TaskId, _: WorkerId, _: Box<[u8]>) {}
}

type WT = (Option<u64>, u32, u32); // time limit (s), max workers per allocation, max sn workers
type MQ = (u32, u64, u32); // nodes, time request (s), ready tasks

fn show_types(ts: &[WT]) -> String {
    if ts.is_empty() { "-".into() } else { ts.iter().map(|(tl, m, sn)| format!("{}:{m}:{sn}", tl.map(|x| x.to_string()).unwrap_or("-".into()))).collect::<Vec<_>>().join(";") }
}
fn show_queues(qs: &[MQ]) -> String {
    if qs.is_empty() { "-".into() } else { qs.iter().map(|(n, mt, s)| format!("{n}:{mt}:{s}")).collect::<Vec<_>>().join(";") }
}
fn parse_types(s: &str) -> Vec<WT> {
    if s == "-" { return vec![]; }
    s.split(';').map(|x| { let t: Vec<&str> = x.split(':').collect(); (if t[0] == "-" { None } else { Some(t[0].parse().unwrap()) }, t[1].parse().unwrap(), t[2].parse().unwrap()) }).collect()
}
fn parse_queues(s: &str) -> Vec<MQ> {
    if s == "-" { return vec![]; }
    s.split(';').map(|x| { let t: Vec<&str> = x.split(':').collect(); (t[0].parse().unwrap(), t[1].parse().unwrap(), t[2].parse().unwrap()) }).collect()
}

fn fits(t: &WT, q: &MQ) -> bool {
    t.0.is_none_or(|l| q.1 <= l) && q.0 <= t.1
}

fn exec(t: &mut Trace, types: &[WT], queues: &[MQ], sn: u32) {
    t.op(&format!("query types={} queues={} sn={sn}", show_types(types), show_queues(queues)));
    let r = catch(|| {
        let server = VerifServer::new("verif".to_string(), WorkerId::new(0), SchedulerConfig { proactive_filling_reserve: 1, proactive_filling_max: 1, mip_time_limit: Duration::from_secs(20) });
        server.set_client_events(Box::new(NoEvents));
        let sr = server.server_ref();
        let mut tasks = vec![];
        let mut job = 1u32;
        for (n, mt, size) in queues {
            let rq = sr.get_or_create_resource_rq_id(&ResourceRequestVariants { variants: smallvec![ResourceRequest { n_nodes: *n, resources: Default::default(), min_time: Duration::from_secs(*mt), weight: Default::default() }] });
            for i in 0..*size {
                tasks.push(TaskConfiguration { id: TaskId::new(JobId::new(job), JobTaskId::new(i)), resource_rq_id: rq, shared_data_index: 0, task_deps: Default::default(), entry: None });
            }
            job += 1;
        }
        if sn > 0 {
            let rq = sr.get_or_create_resource_rq_id(&ResourceRequestVariants { variants: smallvec![ResourceRequest {
                n_nodes: 0,
                resources: smallvec![ResourceRequestEntry { resource: "cpus".to_string(), policy: AllocationRequest::Compact(ResourceAmount::new_units(1)) }],
                min_time: Duration::from_secs(0),
                weight: Default::default(),
            }] });
            for i in 0..sn {
                tasks.push(TaskConfiguration { id: TaskId::new(JobId::new(job), JobTaskId::new(i)), resource_rq_id: rq, shared_data_index: 0, task_deps: Default::default(), entry: None });
            }
        }
        if !tasks.is_empty() {
            sr.add_new_tasks(TaskSubmit {
                tasks,
                shared_data: vec![SharedTaskConfiguration { time_limit: None, priority: UserPriority::new(0), crash_limit: CrashLimit::default(), body: std::rc::Rc::from(Vec::<u8>::new()) }],
                adjust_instance_id_and_crash_counters: Default::default(),
            })
            .unwrap();
        }
        let qs: Vec<WorkerTypeQuery> = types
            .iter()
            .map(|(tl, m, s)| WorkerTypeQuery { partial: false, descriptor: ResourceDescriptor::simple_cpus(4), time_limit: tl.map(Duration::from_secs), max_sn_workers: *s, max_workers_per_allocation: *m, min_utilization: 0.0 })
            .collect();
        sr.new_worker_query(&qs).map(|r| (r.single_node_workers_per_query.clone(), r.multi_node_allocations.iter().map(|a| (a.worker_type, a.worker_per_allocation, a.max_allocations)).collect::<Vec<_>>())).map_err(|e| format!("{e:?}"))
    });
    match r {
        Err(p) => {
            t.out("!panic query");
            t.mon_fail("c09.panic", "query-harness", &p);
        }
        Ok(Err(e)) => t.out(&format!("!error {}", e.replace(' ', "_"))),
        Ok(Ok((sn_counts, mut mn))) => {
            mn.sort();
            t.out(&format!("mn {}", list(mn.iter().map(|(i, n, m)| format!("{i}:{n}:{m}")))));
            // C17 "allocations are submitted on demand": demand of every hostable multi-node class reaches a queue that can host it
            for q in queues.iter().filter(|q| q.2 > 0) {
                let hostable = types.iter().any(|t| fits(t, q));
                let offered = mn.iter().any(|(i, n, m)| *n == q.0 && *m == q.2 && types.get(*i).is_some_and(|t| fits(t, q)));
                if hostable && !offered {
                    t.mon_fail("c17.demand", "mn-demand-dropped", &format!("{} ready task(s) asking {} nodes for {} s can be hosted by an active queue ({}), but the query answers {:?}", q.2, q.0, q.1, show_types(types), mn));
                }
            }
            for (i, n, m) in &mn {
                let ok = types.get(*i).is_some_and(|t| queues.iter().any(|q| q.0 == *n && q.2 == *m && fits(t, q)));
                if !ok {
                    t.mon_fail("c17.demand", "mn-demand-unfounded", &format!("answer (queue {i}, {n} nodes, {m} allocations) matches no waiting class that queue can host"));
                }
            }
            // single-node part (real solver): never more workers than the queue may add, none without single-node demand
            if !sn_counts.is_empty() {
                for (c, t3) in sn_counts.iter().zip(types) {
                    if *c > t3.2 || (sn == 0 && *c > 0) {
                        t.mon_fail("c17.demand", "sn-demand-out-of-range", &format!("single-node answer {sn_counts:?} for {sn} waiting task(s), limits {}", show_types(types)));
                        break;
                    }
                }
                if sn > 0 && types.iter().any(|t3| t3.2 > 0) && sn_counts.iter().all(|c| *c == 0) {
                    t.mon_fail("c17.demand", "sn-demand-dropped", &format!("{sn} single-node task(s) wait, queues may add workers ({}), but the query asks for none", show_types(types)));
                }
            }
        }
    }
}

fn gen_case(rng: &mut Rng) -> (Vec<WT>, Vec<MQ>, u32) {
    let nt = rng.range(1, 4) as usize;
    let limits = [None, Some(600u64), Some(1800), Some(3600)];
    let types: Vec<WT> = (0..nt).map(|_| (*rng.pick(&limits), rng.range(1, 4) as u32, rng.below(3) as u32)).collect();
    let nq = rng.below(4) as usize;
    let times = [0u64, 300, 900, 1800, 2400, 7200];
    let mut queues: Vec<MQ> = vec![];
    for _ in 0..nq {
        let q = (rng.range(1, 5) as u32, *rng.pick(&times), rng.range(1, 4) as u32);
        // one request class per (nodes, time request)
        if !queues.iter().any(|x| x.0 == q.0 && x.1 == q.1) {
            queues.push(q);
        }
    }
    (types, queues, if rng.chance(1, 2) { rng.range(1, 6) as u32 } else { 0 })
}

fn gen_main(args: &[String]) {
    let g = GenArgs::parse(args);
    let mut t = Trace::new();
    for k in 0..g.cases {
        let sub = g.case_seed(k);
        let mut rng = Rng::new(sub);
        let (types, queues, sn) = gen_case(&mut rng);
        t.case(g.shard * 1_000_000 + k, sub, "");
        exec(&mut t, &types, &queues, sn);
        t.end();
    }
    t.flush();
}

fn replay_main() {
    let mut t = Trace::new();
    for line in std::io::stdin().lock().lines() {
        let line = line.unwrap();
        let toks: Vec<&str> = line.split(' ').filter(|x| !x.is_empty()).collect();
        match toks.first().copied() {
            Some("case") => t.line(&toks.join(" ")),
            Some("op") if toks.get(1).copied() == Some("query") => {
                let get = |k: &str| toks.iter().find_map(|x| x.strip_prefix(k)).unwrap_or("-").to_string();
                exec(&mut t, &parse_types(&get("types=")), &parse_queues(&get("queues=")), get("sn=").parse().unwrap_or(0));
            }
            Some("end") => t.end(),
            _ => {}
        }
    }
    t.flush();
}

pub fn main(mode: &str, args: &[String]) {
    match mode {
        "gen" => gen_main(args),
        "replay" => replay_main(),
        _ => {
            eprintln!("usage: hqv query gen --seed S --shard i/n --cases N --tier T | hqv query replay");
            std::process::exit(2);
        }
    }
}
