//! The *core view* of a simulated run: operations exactly as the tako core received them (new tasks,
//! cancels, worker messages, worker connects/losses, scheduling rounds with the recorded solver solution and
//! hash-order picks) and its canonical outputs (messages to workers, client callbacks, scheduling flag,
//! snapshot of tasks / workers / queues / redirects).
use std::collections::BTreeMap;

use tako::TaskId;
use tako::gateway::LostWorkerReason;
use tako::internal::messages::worker::{FromWorkerMessage, ToWorkerMessage, WorkerTaskUpdate};
use tako::verif::sched::Record;
use tako::verif::server::{CoreSnapshot, SnapTaskState};

use crate::sim::{reason_name, tid, tids};
use crate::util::list;
use crate::world::{Callback, CbKind};

#[derive(Default)]
pub struct CoreView {
    pub lines: Vec<String>,
}

pub fn user_priority(raw: u64) -> i64 {
    (((raw >> 32) as u32) ^ 0x8000_0000) as i32 as i64
}

fn sorted(ts: &[TaskId]) -> Vec<TaskId> {
    let mut v = ts.to_vec();
    v.sort();
    v
}

pub fn record_ops(recs: &[Record]) -> Vec<String> {
    let mut ops = Vec::new();
    for r in recs {
        match r {
            Record::NewRq(id, variants) => {
                let vs: Vec<String> = variants
                    .iter()
                    .map(|v| {
                        format!(
                            "n{}t{}e{}",
                            v.n_nodes,
                            v.min_time_ms,
                            if v.entries.is_empty() {
                                "-".to_string()
                            } else {
                                v.entries
                                    .iter()
                                    .map(|e| format!("{}:{}", e.resource, e.amount.map(|a| a.to_string()).unwrap_or("all".into())))
                                    .collect::<Vec<_>>()
                                    .join("+")
                            }
                        )
                    })
                    .collect();
                ops.push(format!("newrq {} {}", id, vs.join("/")));
            }
            Record::NewTasks(ts) => {
                let items: Vec<String> = ts
                    .iter()
                    .map(|t| {
                        format!(
                            "{}:r{}:p{}:c{}:i{}:k{}:d{}",
                            tid(t.id),
                            t.rq,
                            t.user_priority,
                            t.crash_limit,
                            t.instance,
                            t.crashes,
                            if t.deps.is_empty() { "-".to_string() } else { t.deps.iter().map(|d| tid(*d)).collect::<Vec<_>>().join("+") }
                        )
                    })
                    .collect();
                if !items.is_empty() {
                    ops.push(format!("newtasks {}", items.join(",")));
                }
            }
            Record::Cancel(ids) => ops.push(format!("cancel {}", tids(ids))),
            _ => {}
        }
    }
    ops
}

pub fn schedule_op(recs: &[Record], now_ms: u64) -> String {
    let mut sn = Vec::new();
    let mut mn = Vec::new();
    let mut pf = Vec::new();
    for r in recs {
        match r {
            Record::Sn { rq, variant, counts, taken } => sn.push(format!(
                "{}:{}:{}:{}",
                rq,
                variant,
                counts.iter().map(|(w, c)| format!("{w}x{c}")).collect::<Vec<_>>().join("+"),
                if taken.is_empty() { "-".to_string() } else { taken.iter().map(|t| tid(*t)).collect::<Vec<_>>().join("+") }
            )),
            Record::Mn { rq, sets } => mn.push(format!(
                "{}:{}",
                rq,
                sets.iter().map(|ws| ws.iter().map(|w| w.to_string()).collect::<Vec<_>>().join("+")).collect::<Vec<_>>().join("/")
            )),
            Record::PrefillOrder { rq, workers } => {
                pf.push(format!("{}:{}", rq, workers.iter().map(|w| w.to_string()).collect::<Vec<_>>().join("+")))
            }
            _ => {}
        }
    }
    let j = |v: Vec<String>| if v.is_empty() { "-".to_string() } else { v.join(";") };
    format!("sched now={} sn={} mn={} pf={}", now_ms, j(sn), j(mn), j(pf))
}

pub fn update_op(worker: u32, msg: &FromWorkerMessage) -> Option<String> {
    match msg {
        FromWorkerMessage::TaskUpdate(us) => {
            let items: Vec<String> = us
                .iter()
                .map(|u| match u {
                    WorkerTaskUpdate::Finished { task_id } => format!("F:{}", tid(*task_id)),
                    WorkerTaskUpdate::Failed { task_id, .. } => format!("X:{}", tid(*task_id)),
                    WorkerTaskUpdate::Running(m) => format!("R:{}:{}", tid(m.task_id), m.rv_id.as_num()),
                    WorkerTaskUpdate::RunningPrefilled(m) => format!("P:{}:{}", tid(m.task_id), m.rv_id.as_num()),
                    WorkerTaskUpdate::RejectRequest { task_id, rv_id } => {
                        format!("J:{}:{}", tid(*task_id), rv_id.map(|v| v.as_num().to_string()).unwrap_or("-".into()))
                    }
                    WorkerTaskUpdate::EnableRequest { resource_rq_id, rv_id } => {
                        format!("E:{}:{}", resource_rq_id.as_num(), rv_id.as_num())
                    }
                })
                .collect();
            Some(format!("update {} {}", worker, list(items.iter())))
        }
        FromWorkerMessage::RetractResponse(m) => Some(format!("retracted {} {}", worker, tids(&m.retracted))),
        _ => None,
    }
}

impl CoreView {
    pub fn op(&mut self, ops: &[String], rets: &[Vec<TaskId>]) {
        let r = if rets.is_empty() {
            "-".to_string()
        } else {
            rets.iter().map(|l| if l.is_empty() { "0".to_string() } else { sorted(l).iter().map(|t| tid(*t)).collect::<Vec<_>>().join("+") }).collect::<Vec<_>>().join("/")
        };
        self.lines.push(format!("op multi rets={} {}", r, ops.join(" | ")));
    }

    pub fn outputs(&mut self, sent: &[(u32, ToWorkerMessage)], cbs: &[Callback], flag: bool, snap: &CoreSnapshot) {
        // messages, canonical: per worker, per kind; compute entries and id lists sorted
        let mut compute: BTreeMap<u32, Vec<(TaskId, String)>> = BTreeMap::new();
        let mut retract: BTreeMap<u32, Vec<TaskId>> = BTreeMap::new();
        let mut cancel: BTreeMap<u32, Vec<TaskId>> = BTreeMap::new();
        for (w, m) in sent {
            match m {
                ToWorkerMessage::ComputeTasks(c) => {
                    for t in &c.tasks {
                        compute.entry(*w).or_default().push((
                            t.id,
                            format!(
                                "{}:{}:{}:{}",
                                tid(t.id),
                                t.instance_id.as_num(),
                                t.resource_rq_variant.map(|v| v.as_num().to_string()).unwrap_or("p".into()),
                                if t.node_list.is_empty() { "-".to_string() } else { t.node_list.iter().map(|w| w.as_num().to_string()).collect::<Vec<_>>().join("+") }
                            ),
                        ));
                    }
                }
                ToWorkerMessage::RetractTasks(r) => retract.entry(*w).or_default().extend(r.ids.iter().copied()),
                ToWorkerMessage::CancelTasks(r) => cancel.entry(*w).or_default().extend(r.ids.iter().copied()),
                _ => {}
            }
        }
        for (w, mut items) in compute {
            items.sort();
            self.lines.push(format!("out msg {} compute {}", w, items.iter().map(|x| x.1.clone()).collect::<Vec<_>>().join(",")));
        }
        for (w, ids) in retract {
            self.lines.push(format!("out msg {} retract {}", w, tids(&sorted(&ids))));
        }
        for (w, ids) in cancel {
            self.lines.push(format!("out msg {} cancel {}", w, tids(&sorted(&ids))));
        }
        for cb in cbs {
            self.lines.push(match &cb.kind {
                CbKind::Started { task, instance, workers, rv } => format!("out cb started {} {} {} {}", tid(*task), instance, list(workers.iter()), rv),
                CbKind::Finished { task } => format!("out cb finished {}", tid(*task)),
                CbKind::Error { task, consumers, .. } => format!("out cb error {} {}", tid(*task), tids(&sorted(consumers))),
                CbKind::WorkerNew { worker } => format!("out cb wnew {worker}"),
                CbKind::WorkerLost { worker, running, reason } => format!("out cb wlost {} {} {}", worker, tids(running), reason_name(*reason)),
            });
        }
        self.lines.push(format!("out flag {}", flag as u8));
        self.snapshot(snap);
    }

    pub fn snapshot(&mut self, snap: &CoreSnapshot) {
        for t in &snap.tasks {
            let st = match &t.state {
                SnapTaskState::Waiting(n) => format!("W{n}"),
                SnapTaskState::Assigned(w, v) => format!("A{w}.{v}"),
                SnapTaskState::Prefilled(w) => format!("P{w}"),
                SnapTaskState::Retracting(w) => format!("S{w}"),
                SnapTaskState::Running(w, v) => format!("R{w}.{v}"),
                SnapTaskState::RunningMultiNode(ws) => format!("M{}", ws.iter().map(|w| w.to_string()).collect::<Vec<_>>().join("+")),
                SnapTaskState::Finished => "F".to_string(),
            };
            self.lines.push(format!(
                "out t {} {} c={} d={} rq={} i={} k={}",
                tid(t.id),
                st,
                tids(&t.consumers),
                tids(&sorted(&t.deps)),
                t.rq,
                t.instance,
                t.crashes
            ));
        }
        for w in &snap.workers {
            let a = if let Some((assigned, free, prefilled)) = &w.sn {
                format!("sn a={} f={} p={}", tids(assigned), list(free.iter()), tids(prefilled))
            } else if let Some((t, root, started)) = &w.mn {
                format!("mn {} {} {}", tid(*t), *root as u8, *started as u8)
            } else {
                "?".to_string()
            };
            self.lines.push(format!(
                "out w {} {} tot={} b={} g={} s={}",
                w.id,
                a,
                list(w.total.iter()),
                list(w.blocked.iter().map(|(r, v)| format!("{r}.{v}"))),
                w.group,
                w.stopping as u8
            ));
        }
        for (i, q) in snap.queues.iter().enumerate() {
            let ready = if q.ready.is_empty() {
                "-".to_string()
            } else {
                q.ready.iter().map(|(p, ids)| format!("{}={}", user_priority(*p), ids.iter().map(|t| tid(*t)).collect::<Vec<_>>().join("+"))).collect::<Vec<_>>().join(";")
            };
            let pf = q
                .prefill
                .as_ref()
                .map(|(p, ids)| format!("{}={}", user_priority(*p), if ids.is_empty() { "".to_string() } else { ids.iter().map(|t| tid(*t)).collect::<Vec<_>>().join("+") }))
                .unwrap_or("-".to_string());
            self.lines.push(format!("out q {} {} pf={}", i, ready, pf));
        }
        self.lines.push(format!(
            "out rd {}",
            list(snap.redirects.iter().map(|(t, w, v)| format!("{}>{}.{}", tid(*t), w, v)))
        ));
    }
}

pub fn lost_op(worker: u32, reason: LostWorkerReason, order: &[TaskId]) -> String {
    format!("wlost {} {} {} {}", worker, reason_name(reason), reason.is_failure() as u8, tids(order))
}
