//! Executes journal ops on the REAL code (JournalWriter / JournalReader / StateRestorer / prune_journal through
//! the hooks), prints the canonical outputs and evaluates the monitors.
use std::collections::{BTreeMap, BTreeSet};
use std::path::{Path, PathBuf};
use std::time::Instant;

use hyperqueue::server::event::journal::{JournalReader, JournalWriter};
use hyperqueue::server::job::JobTaskState;
use hyperqueue::verif::journal as hook;
use hyperqueue::verif::journal::{RestoreError, Restored};
use tako::events::EventProcessor;

use super::rec::{Rec, worker_cfg};
use super::spec::{Outcome, Spec};
use crate::util::{Trace, catch, list};

struct Noop;
impl EventProcessor for Noop {
    fn on_task_finished(&mut self, _: tako::TaskId) {}
    fn on_task_started(&mut self, _: tako::TaskId, _: tako::InstanceId, _: &[tako::WorkerId], _: tako::ResourceVariantId, _: tako::task::SerializedTaskContext) {}
    fn on_task_error(&mut self, _: tako::TaskId, _: Vec<tako::TaskId>, _: tako::internal::messages::common::TaskFailInfo) -> Vec<tako::TaskId> { vec![] }
    fn on_worker_new(&mut self, _: tako::WorkerId, _: &tako::worker::WorkerConfiguration) {}
    fn on_worker_lost(&mut self, _: tako::WorkerId, _: &[tako::TaskId], _: tako::gateway::LostWorkerReason) {}
    fn on_worker_overview(&mut self, _: Box<tako::worker::WorkerOverview>) {}
    fn on_task_notify(&mut self, _: tako::TaskId, _: tako::WorkerId, _: Box<[u8]>) {}
}

/// canonical, comparable view of one real restore
#[derive(Clone, Debug, Default, PartialEq)]
pub struct View {
    pub status: String, // "ok" | "err <kind>" | "panic <kw>"
    pub trunc: Option<u64>,
    pub uid: String,
    pub ctr: (u32, u32, u32),
    pub next: (u32, u32, u32),
    pub queues: Vec<(u32, bool)>,
    /// job -> (open, mf, n_submits, counters[5], tasks: (id, kind, started inst, workers))
    pub jobs: BTreeMap<u32, VJob>,
    /// (job, batch index, tasks (id, sorted deps), adjust (task, inst, crash))
    pub batches: Vec<(u32, u32, Vec<(u32, Vec<u32>)>, Vec<(u32, u32, u32)>)>,
    pub core: Option<Vec<(u32, u32, u32, u32, Vec<u32>)>>,
}

#[derive(Clone, Debug, Default, PartialEq)]
pub struct VJob {
    pub open: bool,
    pub mf: Option<u32>,
    pub n_submits: u32,
    pub counters: [u32; 5],
    pub terminated: bool,
    pub tasks: Vec<(u32, &'static str, Option<(u32, Vec<u32>)>)>,
}

fn panic_kw(msg: &str) -> String {
    if msg.contains("Option::unwrap()") { "unwrap-none".into() }
    else if msg.contains("Invalid task state") { "invalid-task-state".into() }
    else if msg.contains("self.queues.insert") { "assert-queue".into() }
    else if msg.contains("resource_rq_id.as_usize()") { "assert-rq".into() }
    else if msg.contains("self.tasks") && msg.contains("insert") { "assert-attach".into() }
    else { format!("other:{}", msg.split_whitespace().take(4).collect::<Vec<_>>().join("_")) }
}

fn state_view(s: &JobTaskState) -> (&'static str, Option<(u32, Vec<u32>)>) {
    let sd = |d: &hyperqueue::server::job::StartedTaskData| (d.context.instance_id.as_num(), d.worker_ids.iter().map(|w| w.as_num()).collect::<Vec<_>>());
    match s {
        JobTaskState::Waiting => ("waiting", None),
        JobTaskState::Running { started_data } => ("running", Some(sd(started_data))),
        JobTaskState::Finished { started_data, .. } => ("finished", Some(sd(started_data))),
        JobTaskState::Failed { started_data, .. } => ("failed", started_data.as_ref().map(sd)),
        JobTaskState::Canceled { started_data, .. } => ("canceled", started_data.as_ref().map(sd)),
        JobTaskState::Aborted { started_data, .. } => ("aborted", started_data.as_ref().map(sd)),
    }
}

/// run the real restore on `path` (panics caught) and canonicalise
pub fn real_restore(path: &Path) -> View {
    let r = catch(|| hook::restore(path, "GENUID"));
    let mut v = View::default();
    match r {
        Err(msg) => v.status = format!("panic {}", panic_kw(&msg)),
        Ok(Err(RestoreError::Load(e))) => {
            let kind = match e {
                hyperqueue::Error::DeserializationError(ref m) if m.contains("Journal load error") => "corrupt",
                hyperqueue::Error::GenericError(_) | hyperqueue::Error::IoError(_) => "open",
                _ => "load-other",
            };
            v.status = format!("err {kind}");
        }
        Ok(Err(RestoreError::Jobs(_))) => v.status = "err validation".into(),
        Ok(Ok(mut x)) => {
            v.status = "ok".into();
            fill_view(&mut v, &mut x);
        }
    }
    v
}

fn fill_view(v: &mut View, x: &mut Restored) {
    v.trunc = x.truncate_size;
    v.uid = x.server_uid.clone();
    v.ctr = (x.job_id_counter, x.worker_id_counter, x.queue_id_counter);
    x.server.set_client_events(Box::new(Noop));
    let first_worker = match catch(|| x.server.add_worker(worker_cfg(None), Instant::now())) {
        Ok((w, _)) => w.as_num(),
        Err(_) => u32::MAX,
    };
    // the first queue id as `bootstrap::start_server` leaves it: the autoalloc state is seeded with the restored counter,
    // the restored queues are re-added under their old ids through the REAL `AddQueue` handler, then a new queue is added
    let ids: Vec<u32> = x.queues.iter().map(|q| q.0).collect();
    let first_queue = first_queue_id_after_bootstrap(x.queue_id_counter, &ids).unwrap_or(x.first_queue_id);
    v.next = (x.first_job_id, first_worker, first_queue);
    v.queues = x.queues.clone();
    for j in &x.jobs {
        let c = &j.counters;
        v.jobs.insert(j.id, VJob {
            open: j.is_open,
            mf: j.max_fails,
            n_submits: j.n_submits as u32,
            counters: [c.n_running_tasks, c.n_finished_tasks, c.n_failed_tasks, c.n_canceled_tasks, c.n_aborted_tasks],
            terminated: j.is_terminated,
            tasks: j.tasks.iter().map(|t| { let (k, sd) = state_view(&t.state); (t.id, k, sd) }).collect(),
        });
    }
    // batches: group by job (stable), index within job
    let mut per_job: BTreeMap<u32, u32> = BTreeMap::new();
    let mut bs = vec![];
    for b in &x.batches {
        let job = b.tasks.first().map(|t| t.0).unwrap_or(0);
        let idx = per_job.entry(job).or_insert(0);
        let tasks = b.tasks.iter().map(|(_, t, deps)| { let mut d = deps.clone(); d.sort(); (*t, d) }).collect();
        let mut adj: Vec<(u32, u32, u32)> = b.adjust.iter().map(|(_, t, i, c)| (*t, *i, *c)).collect();
        adj.sort();
        bs.push((job, *idx, tasks, adj));
        *idx += 1;
    }
    bs.sort_by_key(|b| (b.0, b.1));
    v.batches = bs;
    v.core = match &x.core_tasks {
        Ok(ts) => Some(ts.iter().map(|t| { let mut d = t.deps.clone(); d.sort(); (t.job, t.task, t.instance, t.crash_counter, d) }).collect()),
        Err(_) => None,
    };
}

struct NoEnv;
impl hyperqueue::verif::autoalloc::VerifEnv for NoEnv {
    fn now_ms(&mut self) -> u64 { 0 }
    fn submit(&mut self, _: u32, _: u64) -> hyperqueue::verif::autoalloc::VerifSubmit { hyperqueue::verif::autoalloc::VerifSubmit::Fail }
    fn statuses(&mut self, _: u32, _: &[String]) -> Option<Vec<hyperqueue::verif::autoalloc::VerifStatus>> { None }
    fn remove(&mut self, _: u32, _: &str) -> bool { true }
    fn query(&mut self, _: &[hyperqueue::verif::autoalloc::VerifQuery]) -> Option<hyperqueue::verif::autoalloc::VerifQueryResponse> { None }
}

fn first_queue_id_after_bootstrap(counter: u32, restored: &[u32]) -> Option<u32> {
    use hyperqueue::verif::autoalloc::{VerifAutoAlloc, VerifQueueParams};
    let restored = restored.to_vec();
    catch(move || {
        let env: hyperqueue::verif::autoalloc::VerifEnvRef = std::rc::Rc::new(std::cell::RefCell::new(NoEnv));
        let rt = tokio::runtime::Builder::new_current_thread().enable_all().build().unwrap();
        rt.block_on(async move {
            let mut va = VerifAutoAlloc::new(counter, env);
            let params = |id: Option<u32>| VerifQueueParams { pbs: false, backlog: 1, max_workers_per_alloc: 1, max_worker_count: None, limiter: None, queue_id: id };
            for q in restored {
                va.add_queue(params(Some(q))).await;
            }
            va.add_queue(params(None)).await.1
        })
    })
    .ok()
    .flatten()
}

fn o(x: Option<u64>) -> String { x.map(|v| v.to_string()).unwrap_or_else(|| "-".into()) }

impl View {
    pub fn lines(&self) -> Vec<String> {
        if let Some(kw) = self.status.strip_prefix("panic ") {
            return vec![format!("!panic {kw}")];
        }
        if self.status != "ok" {
            return vec![format!("res {}", self.status)];
        }
        let mut l = vec![
            "res ok".to_string(),
            format!("trunc {}", o(self.trunc)),
            format!("uid {}", if self.uid.is_empty() { "-" } else { &self.uid }),
            format!("ctr {} {} {}", self.ctr.0, self.ctr.1, self.ctr.2),
            format!("next {} {} {}", self.next.0, self.next.1, self.next.2),
        ];
        for (q, r) in &self.queues {
            l.push(format!("queue {q} {}", if *r { 1 } else { 0 }));
        }
        for (id, j) in &self.jobs {
            l.push(format!("job {id} {} {} {} {}", if j.open { 1 } else { 0 }, o(j.mf.map(|x| x as u64)), j.tasks.len(), j.n_submits));
        }
        for (id, j) in &self.jobs {
            let c = j.counters;
            l.push(format!("cnt {id} {} {} {} {} {}", c[0], c[1], c[2], c[3], c[4]));
        }
        for (id, j) in &self.jobs {
            for (t, k, sd) in &j.tasks {
                match sd {
                    Some((i, ws)) => l.push(format!("task {id} {t} {k} {i} {}", list(ws.iter()))),
                    None => l.push(format!("task {id} {t} {k} - -")),
                }
            }
        }
        for (job, idx, tasks, _) in &self.batches {
            for (t, deps) in tasks {
                l.push(format!("sub {job} {idx} {t} {}", list(deps.iter())));
            }
        }
        for (job, idx, _, adj) in &self.batches {
            for (t, i, c) in adj {
                l.push(format!("adj {job} {idx} {t} {i} {c}"));
            }
        }
        match &self.core {
            Some(ts) => for (j, t, i, c, d) in ts {
                l.push(format!("core {j} {t} {i} {c} {}", list(d.iter())));
            },
            None => l.push("core !dup".into()),
        }
        l
    }

    /// what C12 compares: unfinished jobs, outcomes, pending tasks (deps / instance / crash), queues
    pub fn restore_view(&self, with_crash: bool, with_qres: bool) -> Vec<String> {
        let mut l = vec![format!("status {}", self.status)];
        for (q, r) in &self.queues { if with_qres { l.push(format!("queue {q} worker_resources={r}")); } else { l.push(format!("queue {q}")); } }
        for (id, j) in &self.jobs {
            l.push(format!("job {id} {} {:?} {}", j.open, j.mf, j.n_submits));
            for (t, k, _) in &j.tasks { l.push(format!("task {id} {t} {k}")); }
        }
        if let Some(ts) = &self.core {
            for (j, t, i, c, d) in ts {
                if with_crash { l.push(format!("pending {j} {t} inst={i} crash={c} deps={}", list(d.iter()))); }
                else { l.push(format!("pending {j} {t} inst={i} deps={}", list(d.iter()))); }
            }
        } else { l.push("core-error".into()); }
        l
    }
}

pub struct Exec {
    pub dir: PathBuf,
    pub hdr: u64,
    pub recs: Vec<Rec>,
    /// file size after record i
    pub ends: Vec<u64>,
    pub file: Vec<u8>,
    /// pruned journal: its records and the unpruned history it must be equivalent to
    pub pruned: Vec<Rec>,
    pub base: Vec<Rec>,
    pub monitors: bool,
    writer: Option<JournalWriter>,
}

fn write_journal(path: &Path, recs: &[Rec]) {
    let _ = std::fs::remove_file(path);
    let mut w = JournalWriter::create_or_append(path, None).unwrap();
    for r in recs { w.store(r.to_event()).unwrap(); }
    w.finish().unwrap();
}

fn read_journal(path: &Path) -> Result<(Vec<Rec>, bool), String> {
    let mut reader = JournalReader::open(path).map_err(|e| e.to_string())?;
    let mut out = vec![];
    for e in &mut reader {
        let e = e.map_err(|e| e.to_string())?;
        out.push(Rec::from_event(&e).ok_or("undecodable event")?);
    }
    Ok((out, reader.contains_partial_data()))
}

impl Exec {
    pub fn new(dir: &Path, monitors: bool) -> Exec {
        let jp = dir.join("journal.bin");
        let _ = std::fs::remove_file(&jp);
        let w = JournalWriter::create_or_append(&jp, None).unwrap();
        let hdr = std::fs::metadata(&jp).unwrap().len();
        Exec { dir: dir.to_path_buf(), hdr, recs: vec![], ends: vec![], file: vec![], pruned: vec![], base: vec![], monitors, writer: Some(w) }
    }
    fn jpath(&self) -> PathBuf { self.dir.join("journal.bin") }
    fn ppath(&self) -> PathBuf { self.dir.join("pruned.bin") }

    /// `op rec`: the real writer appends the record; returns its encoded size
    pub fn append(&mut self, r: Rec) -> u64 {
        let w = self.writer.as_mut().unwrap();
        w.store(r.to_event()).unwrap();
        w.flush().unwrap();
        let end = std::fs::metadata(self.jpath()).unwrap().len();
        let prev = self.ends.last().copied().unwrap_or(self.hdr);
        self.ends.push(end);
        self.recs.push(r);
        end - prev
    }

    fn load_file(&mut self) {
        if self.file.len() as u64 != self.ends.last().copied().unwrap_or(self.hdr) {
            self.file = std::fs::read(self.jpath()).unwrap();
        }
    }

    pub fn boundary(&self, k: usize) -> u64 { if k == 0 { self.hdr } else { self.ends[k - 1] } }

    fn restore_cut(&mut self, k: usize, extra: u64) -> View {
        self.load_file();
        let cut = (self.boundary(k) + extra) as usize;
        let p = self.dir.join("cut.bin");
        std::fs::write(&p, &self.file[..cut.min(self.file.len())]).unwrap();
        real_restore(&p)
    }

    /// `op restore k extra`
    pub fn op_restore(&mut self, tr: &mut Trace, k: usize, extra: u64) {
        tr.op(&format!("restore {k} {extra}"));
        let v = self.restore_cut(k, extra);
        let (spec, producible, fbs) = Spec::of(&self.recs[..k]);
        // the harness' claim that this prefix is producible, checked against the Lean predicate `Producible`
        tr.out(&format!("prod {}", if producible { 1 } else { 0 }));
        for l in v.lines() { tr.out(&l); }
        if !self.monitors { return; }
        if !producible {
            tr.mon_fail("gen.producible", "generator-not-producible", "a generated journal prefix fails the producibility check");
            return;
        }
        monitor_c10_c11(tr, &v, &spec, fbs, &self.recs[..k]);
        // torn tail
        if extra == 0 {
            if v.status == "ok" && v.trunc.is_some() {
                tr.mon_fail("c10.torn_tail", "truncate-at-boundary", &format!("truncate_size={:?} on a clean cut", v.trunc));
            }
        } else {
            let b = self.restore_cut(k, 0);
            let mut vb = v.clone();
            vb.trunc = None;
            if v.status == "ok" && v.trunc != Some(self.boundary(k)) {
                tr.mon_fail("c10.torn_tail", "truncate-position", &format!("truncate_size={:?} expected {}", v.trunc, self.boundary(k)));
            }
            if vb != b {
                tr.mon_fail("c10.torn_tail", "torn-tail-not-ignored", &format!("restore of cut {k}+{extra} differs from restore at boundary {k}: {} vs {}", v.status, b.status));
            }
        }
    }

    /// `op resume k extra size <rec>`: what `bootstrap::start_server` does with an existing journal — restore from the
    /// file cut after k records + `extra` bytes, reopen it with the REAL `JournalWriter::create_or_append(path,
    /// truncate_size)`, append the `ServerStart` record, stop; then restart once more from the resulting file.
    pub fn op_resume(&mut self, tr: &mut Trace, k: usize, extra: u64) {
        self.load_file();
        let cut = ((self.boundary(k) + extra) as usize).min(self.file.len());
        let p = self.dir.join("resume.bin");
        std::fs::write(&p, &self.file[..cut]).unwrap();
        let v1 = real_restore(&p);
        let (spec, producible, _) = Spec::of(&self.recs[..k]);
        let uid = if spec.uid.is_empty() { "GENUID".to_string() } else { spec.uid.clone() };
        let rec = Rec::Start(uid);
        if v1.status != "ok" {
            tr.op(&format!("resume {k} {extra} 0 {}", rec.tokens()));
            for l in v1.lines() { tr.out(&l); }
            return;
        }
        let base = v1.trunc.unwrap_or(cut as u64);
        let wr = catch(|| {
            let mut w = JournalWriter::create_or_append(&p, v1.trunc).unwrap();
            w.store(rec.to_event()).unwrap();
            w.finish().unwrap();
        });
        let len = std::fs::metadata(&p).map(|m| m.len()).unwrap_or(0);
        // the size of the appended record as the real writer encodes it (measured on a fresh file)
        let q = self.dir.join("one.bin");
        write_journal(&q, std::slice::from_ref(&rec));
        let size = std::fs::metadata(&q).unwrap().len() - self.hdr;
        tr.op(&format!("resume {k} {extra} {size} {}", rec.tokens()));
        if let Err(m) = wr {
            tr.out(&format!("!panic {}", panic_kw(&m)));
            return;
        }
        let v2 = real_restore(&p);
        for l in v2.lines() { tr.out(&l); }
        if !self.monitors || !producible { return; }
        if len != base + size {
            tr.mon_fail("c10.torn_tail", "resume-file-length", &format!("after reopening at {base} and appending a {size}-byte record the file has {len} bytes"));
        }
        // reference: the same records written to a fresh file
        let c = self.dir.join("clean.bin");
        let mut recs: Vec<Rec> = self.recs[..k].to_vec();
        recs.push(rec);
        write_journal(&c, &recs);
        let vc = real_restore(&c);
        if v2 != vc {
            tr.mon_fail("c10.torn_tail", "second-restart-after-torn-tail", &format!("restart from (journal cut at {k}+{extra}, reopened, ServerStart appended) gives `{}`, the same records in a clean file give `{}`", v2.status, vc.status));
        }
    }

    /// `op boot k extra <uid>`: a REAL server session on the journal cut after k records + `extra` bytes:
    /// `bootstrap::init_hq_server` (-> `start_server`: load, restore, `initialize_server` with the counters and the truncate
    /// size, re-submission of the restored tasks) in a fresh server directory, a client connects over TCP and stops the
    /// server; then the resulting file is restored once more. Only for prefixes without allocation queues (the restored
    /// autoalloc process would talk to the batch system).
    pub fn op_boot(&mut self, tr: &mut Trace, k: usize, extra: u64) {
        use hyperqueue::client::globalsettings::GlobalSettings;
        use hyperqueue::client::output::quiet::Quiet;
        use hyperqueue::server::bootstrap::{ServerConfig, get_client_session, init_hq_server};
        self.load_file();
        let cut = ((self.boundary(k) + extra) as usize).min(self.file.len());
        let p = self.dir.join("boot.bin");
        std::fs::write(&p, &self.file[..cut]).unwrap();
        let (spec, producible, _) = Spec::of(&self.recs[..k]);
        let sd = self.dir.join(format!("sd-{k}-{extra}"));
        let _ = std::fs::remove_dir_all(&sd);
        std::fs::create_dir_all(&sd).unwrap();
        let journal = p.clone();
        let sd2 = sd.clone();
        // the starting server prints its directory to stdout: keep it out of the trace (the trace's own buffer is above the
        // process-wide stdout handle: push everything written so far through before the descriptor is swapped)
        tr.flush();
        let saved = unsafe {
            let devnull = std::ffi::CString::new("/dev/null").unwrap();
            let null_fd = libc::open(devnull.as_ptr(), libc::O_WRONLY);
            let saved = libc::dup(1);
            libc::dup2(null_fd, 1);
            libc::close(null_fd);
            saved
        };
        let res: Result<Result<(), String>, String> = catch(move || {
            let rt = tokio::runtime::Builder::new_current_thread().enable_all().build().unwrap();
            rt.block_on(async move {
                let gs = GlobalSettings::new(sd2.clone(), Box::new(Quiet));
                let cfg = ServerConfig {
                    worker_host: "localhost".to_string(),
                    client_host: "localhost".to_string(),
                    idle_timeout: None,
                    client_port: None,
                    worker_port: None,
                    journal_path: Some(journal),
                    journal_flush_period: std::time::Duration::from_secs(30),
                    worker_secret_key: None,
                    client_secret_key: None,
                    server_uid: None,
                    scheduler_mip_time_limit: std::time::Duration::from_secs(5),
                };
                let server = init_hq_server(&gs, cfg);
                tokio::pin!(server);
                let client = async {
                    let mut session = loop {
                        match get_client_session(&sd2).await {
                            Ok(s) => break s,
                            Err(_) => tokio::time::sleep(std::time::Duration::from_millis(10)).await,
                        }
                    };
                    let _ = hyperqueue::client::server::client_stop_server(session.connection()).await;
                };
                tokio::pin!(client);
                let session = async {
                    let mut client_done = false;
                    loop {
                        tokio::select! {
                            r = &mut server => break r,
                            _ = &mut client, if !client_done => { client_done = true; }
                        }
                    }
                };
                match tokio::time::timeout(std::time::Duration::from_secs(20), session).await {
                    Ok(Ok(())) => Ok(()),
                    Ok(Err(e)) => Err(format!("{e:#}")),
                    Err(_) => Err("server session did not end within 20 s".to_string()),
                }
            })
        });
        {
            // whatever the server left in the process-wide stdout buffer goes to /dev/null too
            use std::io::Write;
            let _ = std::io::stdout().flush();
        }
        unsafe {
            libc::dup2(saved, 1);
            libc::close(saved);
        }
        // the uid of the session the real server appended (the journal's own uid, or a new one for a journal without a start record)
        let after = read_journal(&p);
        let appended: Vec<Rec> = after.as_ref().map(|(rs, _)| rs.iter().skip(k).cloned().collect()).unwrap_or_default();
        let uid = appended.iter().find_map(|r| if let Rec::Start(u) = r { Some(u.clone()) } else { None }).unwrap_or_else(|| "-".to_string());
        tr.op(&format!("boot {k} {extra} {uid}"));
        match &res {
            Ok(Ok(())) => tr.out("boot ok"),
            Ok(Err(e)) => tr.out(&format!("boot error {}", e.replace('\n', " ").chars().take(120).collect::<String>().replace(' ', "_"))),
            Err(m) => tr.out(&format!("!panic {}", panic_kw(m))),
        }
        let v2 = real_restore(&p);
        for l in v2.lines() { tr.out(&l); }
        if !self.monitors || !producible { return; }
        if !matches!(res, Ok(Ok(()))) {
            tr.mon_fail("c10.boot", "restart-failed", &format!("the server did not start and stop cleanly on the journal cut at {k}+{extra}: {res:?}"));
            return;
        }
        match &after {
            Err(e) => tr.mon_fail("c10.boot", "journal-unreadable-after-restart", &format!("after a restart from the journal cut at {k}+{extra} the file does not read back: {e}")),
            Ok((_, true)) => tr.mon_fail("c10.boot", "journal-unreadable-after-restart", &format!("after a restart from the journal cut at {k}+{extra} the file ends in partial data")),
            Ok((rs, false)) => {
                let kinds_ok = rs.len() == k + 2 && rs[..k] == self.recs[..k] && matches!(rs[k], Rec::Start(_)) && matches!(rs[k + 1], Rec::Stop);
                if !kinds_ok {
                    tr.mon_fail("c10.boot", "journal-content-after-restart", &format!("after a restart from the journal cut at {k}+{extra} the file holds {} records, expected the {k} complete ones + ServerStart + ServerStop; appended: {:?}", rs.len(), appended.iter().map(|r| r.tokens()).collect::<Vec<_>>()));
                }
                if !spec.uid.is_empty() && uid != spec.uid {
                    tr.mon_fail("c11.uid", "server-uid-changed", &format!("the journal belongs to server {} but the restarted server recorded uid {uid}", spec.uid));
                }
            }
        }
        // reference: the same records written to a fresh file
        let c = self.dir.join("clean.bin");
        let mut recs: Vec<Rec> = self.recs[..k].to_vec();
        recs.push(Rec::Start(uid));
        recs.push(Rec::Stop);
        write_journal(&c, &recs);
        let vc = real_restore(&c);
        if v2 != vc {
            tr.mon_fail("c10.boot", "second-restart-after-real-boot", &format!("restart from (journal cut at {k}+{extra} + one real server session) gives `{}`, the same records in a clean file give `{}`", v2.status, vc.status));
        }
    }

    /// `op sprune k jobs workers k2`: the REAL journal thread (`start_event_streaming` -> `streaming_process`) receives the
    /// first k records as events (not flushed: flush period one hour), then a `PruneJournal` request with the live sets,
    /// then the records k..k2, then its channel closes. Prints the records of the resulting file.
    pub fn op_sprune(&mut self, tr: &mut Trace, k: usize, lj: &[u32], lw: &[u32], k2: usize) {
        use hyperqueue::server::event::journal::{EventStreamMessage, start_event_streaming};
        tr.op(&format!("sprune {k} {} {} {k2}", list(lj.iter()), list(lw.iter())));
        let path = self.dir.join("stream.bin");
        let _ = std::fs::remove_file(&path);
        let recs = self.recs.clone();
        let (lj2, lw2) = (lj.to_vec(), lw.to_vec());
        let p2 = path.clone();
        let r = catch(move || {
            // one journal thread per server life: a `ServerStop` event ends the thread (as in the real server), the
            // next event belongs to the next life, which reopens the file with `create_or_append(path, None)`
            struct Life { tx: Option<hyperqueue::server::event::journal::EventStreamSender>, end: Option<std::pin::Pin<Box<dyn std::future::Future<Output = ()>>>>, path: PathBuf }
            impl Life {
                fn tx(&mut self) -> &hyperqueue::server::event::journal::EventStreamSender {
                    if self.tx.is_none() {
                        let writer = JournalWriter::create_or_append(&self.path, None).unwrap();
                        let (tx, end) = start_event_streaming(writer, &self.path, std::time::Duration::from_secs(3600));
                        self.tx = Some(tx);
                        self.end = Some(Box::pin(end));
                    }
                    self.tx.as_ref().unwrap()
                }
                fn stop(&mut self) {
                    self.tx = None;
                    if let Some(end) = self.end.take() { futures::executor::block_on(end); }
                }
                fn send(&mut self, r: &Rec) {
                    let _ = self.tx().send(EventStreamMessage::Event(r.to_event()));
                    if matches!(r, Rec::Stop) { self.stop(); }
                }
            }
            let mut life = Life { tx: None, end: None, path: p2.clone() };
            for r in &recs[..k] { life.send(r); }
            let (cb, done) = tokio::sync::oneshot::channel();
            life.tx().send(EventStreamMessage::PruneJournal {
                callback: cb,
                live_jobs: lj2.iter().map(|j| tako::JobId::new(*j)).collect(),
                live_workers: lw2.iter().map(|w| tako::WorkerId::new(*w)).collect(),
            }).unwrap();
            let pruned_ok = done.blocking_recv().is_ok();
            for r in &recs[k..k2] { life.send(r); }
            life.stop();
            pruned_ok
        });
        match r {
            Err(m) => tr.out(&format!("!panic {}", panic_kw(&m))),
            Ok(false) => tr.out("pn !error"),
            Ok(true) => match read_journal(&path) {
                Ok((got, partial)) => {
                    tr.out(&format!("pn {}", got.len()));
                    for r in &got { tr.out(&format!("prec {}", r.tokens())); }
                    if partial && self.monitors { tr.mon_fail("c12.wf", "streamed-pruned-file-partial", "journal written by the journal thread around a prune has a torn tail"); }
                    if self.monitors {
                        // reference: prune_journal on a flushed file of the first k records, then the later records
                        let src = self.dir.join("sprune_src.bin");
                        let dst = self.dir.join("sprune_ref.bin");
                        write_journal(&src, &self.recs[..k]);
                        if let Ok(Ok(())) = catch(|| hook::prune(&src, &dst, lj, lw)) {
                            if let Ok((mut want, _)) = read_journal(&dst) {
                                want.extend(self.recs[k..k2].iter().cloned());
                                if want != got {
                                    let i = want.iter().zip(got.iter()).position(|(a, b)| a != b).unwrap_or(want.len().min(got.len()));
                                    tr.mon_fail("c12.prune_equiv", "journal-thread-prune-loses-records", &format!(
                                        "journal thread: {k} events, prune, {} events -> file has {} records, prune_journal of the same {k} records + the later ones has {}; first difference at record {i}: `{}` vs `{}`",
                                        k2 - k, got.len(), want.len(),
                                        got.get(i).map(|r| r.tokens()).unwrap_or("<end>".into()), want.get(i).map(|r| r.tokens()).unwrap_or("<end>".into())));
                                }
                            }
                        }
                    }
                }
                Err(e) => {
                    tr.out("pn !unreadable");
                    if self.monitors { tr.mon_fail("c12.wf", "streamed-pruned-file-unreadable", &e); }
                }
            },
        }
    }

    fn print_pruned(&self, tr: &mut Trace) {
        tr.out(&format!("pn {}", self.pruned.len()));
        for r in &self.pruned { tr.out(&format!("prec {}", r.tokens())); }
    }

    /// `op prune k jobs workers`
    pub fn op_prune(&mut self, tr: &mut Trace, k: usize, lj: &[u32], lw: &[u32]) {
        tr.op(&format!("prune {k} {} {}", list(lj.iter()), list(lw.iter())));
        self.load_file();
        let src = self.dir.join("prune_src.bin");
        std::fs::write(&src, &self.file[..self.boundary(k) as usize]).unwrap();
        self.base = self.recs[..k].to_vec();
        self.do_prune(tr, &src, lj, lw);
    }

    fn do_prune(&mut self, tr: &mut Trace, src: &Path, lj: &[u32], lw: &[u32]) {
        let tmp = self.dir.join("pruned.tmp");
        match catch(|| hook::prune(src, &tmp, lj, lw)) {
            Ok(Ok(())) => {
                std::fs::rename(&tmp, self.ppath()).unwrap();
                match read_journal(&self.ppath()) {
                    Ok((recs, partial)) => {
                        self.pruned = recs;
                        self.print_pruned(tr);
                        if partial && self.monitors { tr.mon_fail("c12.wf", "pruned-file-partial", "pruned file has a torn tail"); }
                    }
                    Err(e) => {
                        tr.out("pn !unreadable");
                        if self.monitors { tr.mon_fail("c12.wf", "pruned-file-unreadable", &e); }
                    }
                }
            }
            Ok(Err(_)) => tr.out("pn !error"),
            Err(m) => tr.out(&format!("!panic {}", panic_kw(&m))),
        }
    }

    /// `op papp REC`: append with the real writer (`create_or_append(None)` as after the rename in stream.rs)
    pub fn op_papp(&mut self, tr: &mut Trace, r: Rec) {
        tr.op(&format!("papp {}", r.tokens()));
        let mut w = JournalWriter::create_or_append(&self.ppath(), None).unwrap();
        w.store(r.to_event()).unwrap();
        w.finish().unwrap();
        self.pruned.push(r.clone());
        self.base.push(r);
        if self.monitors {
            match read_journal(&self.ppath()) {
                Ok((recs, partial)) => if recs != self.pruned || partial {
                    tr.mon_fail("c12.wf", "append-after-prune", "pruned file + appended record does not read back as such");
                },
                Err(e) => tr.mon_fail("c12.wf", "append-after-prune", &e),
            }
        }
    }

    /// `op pprune jobs workers`
    pub fn op_pprune(&mut self, tr: &mut Trace, lj: &[u32], lw: &[u32]) {
        tr.op(&format!("pprune {} {}", list(lj.iter()), list(lw.iter())));
        let src = self.dir.join("prune_src.bin");
        std::fs::copy(self.ppath(), &src).unwrap();
        self.do_prune(tr, &src, lj, lw);
    }

    /// `op prestore`
    pub fn op_prestore(&mut self, tr: &mut Trace) {
        tr.op("prestore");
        let v = real_restore(&self.ppath());
        for l in v.lines() { tr.out(&l); }
        if !self.monitors { return; }
        let (_, producible, _) = Spec::of(&self.base);
        if !producible { return; }
        let bp = self.dir.join("base.bin");
        write_journal(&bp, &self.base);
        let b = real_restore(&bp);
        if b.status != "ok" { return; } // the unpruned journal itself does not restore: reported by c10
        if v.status != "ok" {
            tr.mon_fail("c12.wf", "pruned-journal-does-not-restore", &format!("restore(prune J) = {} while restore(J) = ok", v.status));
            return;
        }
        let diff = |a: &Vec<String>, b: &Vec<String>| a.iter().zip(b.iter()).find(|(x, y)| x != y).map(|(x, y)| format!("pruned: `{x}` unpruned: `{y}`")).unwrap_or_else(|| format!("{} vs {} lines", a.len(), b.len()));
        // the three components separately, so that each mechanism gets its own stable signature
        let (a0, b0) = (v.restore_view(false, false), b.restore_view(false, false));
        if a0 != b0 {
            tr.mon_fail("c12.prune_equiv", "restore-view-differs", &diff(&a0, &b0));
        }
        let (a1, b1) = (v.restore_view(true, false), b.restore_view(true, false));
        if a0 == b0 && a1 != b1 {
            tr.mon_fail("c12.prune_equiv", "crash-count-workerlost-pruned", &diff(&a1, &b1));
        }
        let (a2, b2) = (v.restore_view(false, true), b.restore_view(false, true));
        if a0 == b0 && a2 != b2 {
            tr.mon_fail("c12.prune_equiv", "queue-worker-resources-workerconnected-pruned", &diff(&a2, &b2));
        }
    }
}

fn kind_of(o: Outcome) -> &'static str { o.tok() }

/// monitors on a restore of a producible prefix
fn monitor_c10_c11(tr: &mut Trace, v: &View, spec: &Spec, fail_before_start: bool, recs: &[Rec]) {
    if v.status != "ok" {
        let sig = if v.status == "panic unwrap-none" && fail_before_start { "taskfailed-without-start".to_string() } else { v.status.replace(' ', "-") };
        tr.mon_fail("c10.restore_no_panic", &sig, &format!("restore of a producible journal ({} records) ends with `{}`", recs.len(), v.status));
        return;
    }
    // --- c10.jobs: job table, open flag, outcomes
    let spec_jobs: BTreeSet<u32> = spec.jobs.keys().copied().collect();
    let real_jobs: BTreeSet<u32> = v.jobs.keys().copied().collect();
    if spec_jobs != real_jobs {
        tr.mon_fail("c10.jobs", "job-set", &format!("restored jobs {:?}, recorded unfinished jobs {:?}", real_jobs, spec_jobs));
    }
    for (id, sj) in &spec.jobs {
        let Some(rj) = v.jobs.get(id) else { continue };
        if rj.open != sj.open || rj.mf != sj.mf {
            tr.mon_fail("c10.jobs", "job-flags", &format!("job {id}: open={} mf={:?}, recorded open={} mf={:?}", rj.open, rj.mf, sj.open, sj.mf));
        }
        let mut st: Vec<(u32, &str)> = sj.tasks.iter().map(|a| (a.id, kind_of(a.st))).collect();
        st.sort();
        let rt: Vec<(u32, &str)> = rj.tasks.iter().map(|(t, k, _)| (*t, *k)).collect();
        if st != rt {
            tr.mon_fail("c10.jobs", "task-outcomes", &format!("job {id}: restored {:?}, recorded {:?}", rt, st));
        }
        // --- c10.counters: counters agree with the restored task states (and with the record)
        let cnt = |k: &str| rj.tasks.iter().filter(|(_, kk, _)| *kk == k).count() as u32;
        let want = [cnt("running"), cnt("finished"), cnt("failed"), cnt("canceled"), cnt("aborted")];
        if rj.counters != want {
            let sig = if sj.n_submits > 1 { "counters-readded-per-submit" } else { "counters" };
            tr.mon_fail("c10.counters", sig, &format!("job {id} ({} submits): counters [run,fin,fail,canc,abort]={:?}, task states give {:?}", sj.n_submits, rj.counters, want));
        }
        let spec_terminated = !sj.open && sj.tasks.iter().all(|a| a.st != Outcome::Waiting);
        if rj.terminated != spec_terminated {
            let sig = if sj.n_submits > 1 { "job-terminated-flag-wrong-counters-readded" } else { "job-terminated-flag" };
            tr.mon_fail("c10.counters", sig, &format!("job {id}: Job::is_terminated()={} after restore, the journal says {}", rj.terminated, spec_terminated));
        }
    }
    // --- c10.resubmit: every non-terminal task exactly once, deps = original minus completed
    let mut got: Vec<(u32, u32, Vec<u32>)> = vec![];
    for (job, _, tasks, _) in &v.batches {
        for (t, d) in tasks { got.push((*job, *t, d.clone())); }
    }
    got.sort();
    let mut want: Vec<(u32, u32, Vec<u32>)> = vec![];
    for (id, sj) in &spec.jobs {
        for (t, deps, _, _) in sj.pending() { want.push((*id, t, deps)); }
    }
    want.sort();
    if got != want {
        tr.mon_fail("c10.resubmit", "pending-tasks", &format!("resubmitted {:?}, expected {:?}", got, want));
        tr.mon_fail("c03.restart", "pending-deps", "see c10.resubmit");
    }
    // --- c03.restart: what the journal durably records is closed under failure propagation at every crash point:
    // a task handed back to the core after a restart has no dependency whose recorded outcome is
    // failed / canceled / aborted (such a dependency can never finish; the restore drops it from the
    // dependency list, so the dependent would START although its dependency never finished)
    for (job, t, _) in &got {
        let Some(sj) = spec.jobs.get(job) else { continue };
        let Some(a) = sj.find(*t) else { continue };
        for d in &a.deps {
            if let Some(b) = sj.find(*d) {
                if matches!(b.st, Outcome::Failed | Outcome::Canceled | Outcome::Aborted) {
                    tr.mon_fail(
                        "c03.restart",
                        "dependent-of-unsuccessful-task-resubmitted",
                        &format!("after a restart from the first {} records task {job}.{t} is resubmitted to run, its dependency {job}.{d} is recorded as {}", recs.len(), b.st.tok()),
                    );
                }
            }
        }
    }
    // --- restart clauses of C06 / C07 (instance ids, crash counts as the core holds them)
    if let Some(core) = &v.core {
        for (j, t, inst, crash, _) in core {
            if let Some(m) = spec.all_inst.get(&(*j, *t)) {
                if inst <= m {
                    tr.mon_fail("c06.restart", "instance-not-fresh", &format!("task {j}.{t}: instance {inst} after restore, journal mentions {m}"));
                }
            }
            if let Some(a) = spec.jobs.get(j).and_then(|sj| sj.find(*t)) {
                if a.crashes != *crash {
                    let sig = if *crash < a.crashes { "crash-count-reset-by-taskstarted" } else { "crash-count-nonroot-or-stale-worker" };
                    tr.mon_fail("c07.restart", sig, &format!("task {j}.{t}: crash counter {crash} after restore, journal records {} crash(es)", a.crashes));
                }
            }
        }
    } else {
        tr.mon_fail("c10.resubmit", "core-refuses-batch", "add_new_tasks returned an error for a restored batch");
    }
    // --- c11
    let mx = |s: &BTreeSet<u32>| s.iter().max().copied();
    if let Some(m) = mx(&spec.all_jobs) { if v.next.0 <= m { tr.mon_fail("c11.fresh", "job-id-reused", &format!("next job id {} <= {m}", v.next.0)); } }
    if let Some(m) = mx(&spec.all_workers) { if v.next.1 <= m { tr.mon_fail("c11.fresh", "worker-id-reused", &format!("next worker id {} <= {m}", v.next.1)); } }
    if let Some(m) = mx(&spec.all_queues) { if v.next.2 <= m { tr.mon_fail("c11.fresh", "queue-id-reused", &format!("next queue id {} <= {m}", v.next.2)); } }
    if v.uid != spec.uid {
        tr.mon_fail("c11.uid", "uid-not-preserved", &format!("restored uid `{}`, last ServerStart `{}`", v.uid, spec.uid));
    }
    let mut q: Vec<u32> = v.queues.iter().map(|x| x.0).collect();
    q.sort();
    if q != spec.queues.iter().copied().collect::<Vec<_>>() {
        tr.mon_fail("c10.jobs", "queues", &format!("restored queues {:?}, recorded {:?}", q, spec.queues));
    }
}
