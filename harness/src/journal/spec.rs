//! Harness-side, independent implementation of the specification `meaning` (what a journal durably recorded)
//! and of the producibility check; mirrors lean/HqModel/Journal/Spec.lean. Used only by the monitors.
use std::collections::{BTreeMap, BTreeSet};

use super::rec::{Desc, Rec};

#[derive(Clone, Copy, Debug, PartialEq, Eq, PartialOrd, Ord)]
pub enum Outcome {
    Waiting,
    Finished,
    Failed,
    Canceled,
    Aborted,
}

impl Outcome {
    pub fn tok(self) -> &'static str {
        match self {
            Outcome::Waiting => "waiting",
            Outcome::Finished => "finished",
            Outcome::Failed => "failed",
            Outcome::Canceled => "canceled",
            Outcome::Aborted => "aborted",
        }
    }
}

#[derive(Clone, Debug)]
pub struct STask {
    pub id: u32,
    pub deps: BTreeSet<u32>,
    pub st: Outcome,
    pub inst: Option<u32>,
    pub run: Option<Vec<u32>>,
    pub crashes: u32,
    /// number of TaskStarted records seen (for defect classification only)
    pub starts: u32,
}

#[derive(Clone, Debug)]
pub struct SJob {
    pub open: bool,
    pub mf: Option<u32>,
    pub tasks: Vec<STask>,
    pub n_submits: u32,
}

impl SJob {
    pub fn find(&self, t: u32) -> Option<&STask> {
        self.tasks.iter().find(|a| a.id == t)
    }
    pub fn is_terminal(&self, t: u32) -> bool {
        self.find(t).map(|a| a.st != Outcome::Waiting).unwrap_or(false)
    }
    pub fn count(&self, o: Outcome) -> u32 {
        self.tasks.iter().filter(|a| a.st == o).count() as u32
    }
    /// (task, remaining deps, next instance, crashes)
    pub fn pending(&self) -> Vec<(u32, Vec<u32>, u32, u32)> {
        self.tasks
            .iter()
            .filter(|a| a.st == Outcome::Waiting)
            .map(|a| {
                (
                    a.id,
                    a.deps.iter().copied().filter(|d| !self.is_terminal(*d)).collect(),
                    a.inst.map(|i| i + 1).unwrap_or(0),
                    a.crashes,
                )
            })
            .collect()
    }
}

#[derive(Clone, Debug, Default)]
pub struct Spec {
    pub jobs: BTreeMap<u32, SJob>,
    pub queues: BTreeSet<u32>,
    /// workers connected to the current server life
    pub workers: BTreeSet<u32>,
    pub uid: String,
    /// every id of that kind a creating record mentions (C11)
    pub all_jobs: BTreeSet<u32>,
    pub all_workers: BTreeSet<u32>,
    pub all_queues: BTreeSet<u32>,
    /// per (job, task): every instance id a TaskStarted mentions (C06 restart clause)
    pub all_inst: BTreeMap<(u32, u32), u32>,
}

fn spec_tasks(desc: &Desc) -> Vec<STask> {
    let mk = |id: u32, deps: BTreeSet<u32>| STask { id, deps, st: Outcome::Waiting, inst: None, run: None, crashes: 0, starts: 0 };
    match desc {
        Desc::Array { .. } => desc.ids().into_iter().map(|i| mk(i, BTreeSet::new())).collect(),
        Desc::Graph(ts) => ts.iter().map(|t| mk(t.id, t.deps.iter().copied().collect())).collect(),
    }
}

pub fn submit_ok(have: &[u32], desc: &Desc) -> bool {
    let ids = desc.ids();
    let mut seen = BTreeSet::new();
    for i in &ids {
        if have.contains(i) || !seen.insert(*i) {
            return false;
        }
    }
    match desc {
        Desc::Array { ranges, entries } => {
            ranges.iter().all(|r| r.2 >= 1) && entries.map(|n| n as usize == ids.len()).unwrap_or(true)
        }
        Desc::Graph(ts) => ts.iter().enumerate().all(|(k, t)| {
            t.rq_ok
                && t.deps.iter().all(|d| *d != t.id && (ts[..k].iter().any(|e| e.id == *d) || have.contains(d)))
        }),
    }
}

impl Spec {
    fn task_mut(&mut self, j: u32, t: u32) -> Option<&mut STask> {
        self.jobs.get_mut(&j).and_then(|job| job.tasks.iter_mut().find(|a| a.id == t))
    }
    fn task(&self, j: u32, t: u32) -> Option<&STask> {
        self.jobs.get(&j).and_then(|job| job.find(t))
    }
    fn set_outcome(&mut self, j: u32, t: u32, o: Outcome) {
        if let Some(a) = self.task_mut(j, t) {
            a.st = o;
            a.run = None;
        }
    }

    pub fn step(&mut self, r: &Rec) {
        match r {
            Rec::Start(u) => {
                self.uid = u.clone();
                self.workers.clear();
            }
            Rec::WConn(w, _) => {
                self.all_workers.insert(*w);
                self.workers.insert(*w);
            }
            Rec::WLost(w, reason) => {
                self.workers.remove(w);
                for job in self.jobs.values_mut() {
                    for a in &mut job.tasks {
                        if a.run.as_ref().and_then(|ws| ws.first()) == Some(w) {
                            a.run = None;
                            if reason.is_failure() {
                                a.crashes += 1;
                            }
                        }
                    }
                }
            }
            Rec::Submit { job, closed, mf, desc } => {
                if *closed {
                    self.all_jobs.insert(*job);
                    self.jobs.insert(*job, SJob { open: false, mf: *mf, tasks: spec_tasks(desc), n_submits: 1 });
                } else if let Some(j) = self.jobs.get_mut(job) {
                    j.tasks.extend(spec_tasks(desc));
                    j.n_submits += 1;
                }
            }
            Rec::JOpen(j, mf) => {
                self.all_jobs.insert(*j);
                self.jobs.insert(*j, SJob { open: true, mf: *mf, tasks: vec![], n_submits: 0 });
            }
            Rec::JClose(j) => {
                if let Some(job) = self.jobs.get_mut(j) {
                    job.open = false;
                }
            }
            Rec::JDone(j) => {
                self.jobs.remove(j);
            }
            Rec::TStart { job, task, inst, workers } => {
                let e = self.all_inst.entry((*job, *task)).or_insert(*inst);
                *e = (*e).max(*inst);
                if let Some(a) = self.task_mut(*job, *task) {
                    a.inst = Some(a.inst.unwrap_or(0).max(*inst));
                    a.run = Some(workers.clone());
                    a.starts += 1;
                }
            }
            Rec::TFin(j, t) => self.set_outcome(*j, *t, Outcome::Finished),
            Rec::TFail(j, t) => self.set_outcome(*j, *t, Outcome::Failed),
            Rec::TCancel(ids) => ids.iter().for_each(|(j, t)| self.set_outcome(*j, *t, Outcome::Canceled)),
            Rec::TAbort(ids) => ids.iter().for_each(|(j, t)| self.set_outcome(*j, *t, Outcome::Aborted)),
            Rec::QNew(q) => {
                self.all_queues.insert(*q);
                self.queues.insert(*q);
            }
            Rec::QDel(q) => {
                self.queues.remove(q);
            }
            Rec::Stop | Rec::WOver(_) | Rec::JCancel(_) | Rec::AQueued(..) | Rec::AStart(..) | Rec::AFin(..) => {}
        }
    }

    /// may the server write `r` now? (mirror of `recordOk`)
    pub fn record_ok(&self, r: &Rec) -> bool {
        let waiting = |j: u32, t: u32| self.task(j, t).map(|a| a.st == Outcome::Waiting).unwrap_or(false);
        let nodup = |ids: &[(u32, u32)]| ids.iter().collect::<BTreeSet<_>>().len() == ids.len();
        match r {
            Rec::Submit { job, closed, desc, .. } => {
                if *closed {
                    !self.jobs.contains_key(job) && submit_ok(&[], desc)
                } else {
                    match self.jobs.get(job) {
                        Some(j) => j.open && submit_ok(&j.tasks.iter().map(|a| a.id).collect::<Vec<_>>(), desc),
                        None => false,
                    }
                }
            }
            Rec::JOpen(j, _) => !self.jobs.contains_key(j),
            Rec::JClose(j) => self.jobs.get(j).map(|j| j.open).unwrap_or(false),
            Rec::JCancel(j) => self.jobs.contains_key(j),
            Rec::JDone(j) => self.jobs.get(j).map(|j| !j.open && j.tasks.iter().all(|a| a.st != Outcome::Waiting)).unwrap_or(false),
            Rec::TStart { job, task, inst, workers } => {
                let mw = self.all_workers.iter().max().copied().unwrap_or(0);
                self.task(*job, *task)
                    .map(|a| a.st == Outcome::Waiting && a.inst.map(|i| i < *inst).unwrap_or(true))
                    .unwrap_or(false)
                    && workers.iter().all(|w| *w <= mw)
            }
            Rec::TFin(j, t) => self.task(*j, *t).map(|a| a.st == Outcome::Waiting && a.inst.is_some()).unwrap_or(false),
            Rec::TFail(j, t) => waiting(*j, *t),
            Rec::TCancel(ids) | Rec::TAbort(ids) => ids.iter().all(|(j, t)| waiting(*j, *t)) && nodup(ids),
            Rec::QNew(q) => !self.queues.contains(q),
            Rec::WConn(w, _) => self.all_workers.iter().max().map(|m| m < w).unwrap_or(*w > 0),
            Rec::WLost(w, _) => self.workers.contains(w),
            _ => true,
        }
    }

    /// (spec after the prefix, producible?, a TaskFailed without an earlier TaskStarted occurred for a live job)
    pub fn of(recs: &[Rec]) -> (Spec, bool, bool) {
        let mut s = Spec::default();
        let mut ok = true;
        let mut fail_before_start = false;
        for r in recs {
            if !s.record_ok(r) {
                ok = false;
            }
            if let Rec::TFail(j, t) = r {
                if s.task(*j, *t).map(|a| a.inst.is_none()).unwrap_or(false) {
                    fail_before_start = true;
                }
            }
            s.step(r);
        }
        (s, ok, fail_before_start)
    }
}
