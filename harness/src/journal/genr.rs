//! Generator of PRODUCIBLE journals: a small state machine that emits records in the order the real server
//! layer emits them (job.rs / state.rs / client handlers / tako reactor callbacks / bootstrap).
use std::collections::{BTreeMap, BTreeSet};

use super::rec::{Desc, GTask, Reason, Rec};
use crate::util::Rng;

#[derive(Clone, Debug, PartialEq)]
enum St {
    Waiting,
    Running { workers: Vec<u32> },
    Done, // any terminal outcome
    Finished,
}

#[derive(Clone, Debug)]
struct GT {
    st: St,
    /// deps that were still in the core when the task was submitted
    blocking: Vec<u32>,
    /// instance id the core holds
    inst: u32,
    last_started: Option<u32>,
    crash: u32,
    /// 0 = never restart, u32::MAX = unlimited
    crash_limit: u32,
}

#[derive(Clone, Debug)]
struct GJ {
    open: bool,
    mf: Option<u32>,
    tasks: BTreeMap<u32, GT>,
    n_failed: u32,
    completed: bool,
    forgotten: bool,
}

impl GJ {
    fn active(&self) -> bool {
        self.tasks.values().any(|t| matches!(t.st, St::Waiting | St::Running { .. }))
    }
    fn terminated(&self) -> bool {
        !self.open && !self.active()
    }
}

pub struct Gen {
    pub rng: Rng,
    jobs: BTreeMap<u32, GJ>,
    next_job: u32,
    workers: BTreeSet<u32>, // connected
    known_workers: BTreeSet<u32>,
    worker_counter: u32,
    queues: BTreeSet<u32>,
    next_queue: u32,
    allocs: Vec<(u32, u32)>,
    next_alloc: u32,
    uid: String,
    pub out: Vec<Rec>,
    /// (number of records, live jobs, live workers) at action boundaries
    pub prune_points: Vec<(usize, Vec<u32>, Vec<u32>)>,
    pub multi_job_batches: bool,
    /// allow TaskFailed for a task that never started (worker-side launch failure): triggers defect F9
    pub fail_before_start: bool,
}

impl Gen {
    pub fn new(seed: u64) -> Gen {
        let mut rng = Rng::new(seed);
        let uid: String = (0..6).map(|_| (b'a' + rng.below(26) as u8) as char).collect();
        let mut g = Gen {
            rng, jobs: BTreeMap::new(), next_job: 1, workers: BTreeSet::new(), known_workers: BTreeSet::new(),
            worker_counter: 0, queues: BTreeSet::new(), next_queue: 1, allocs: vec![], next_alloc: 100,
            uid: uid.clone(), out: vec![], prune_points: vec![], multi_job_batches: false, fail_before_start: false,
        };
        g.out.push(Rec::Start(uid));
        g.mark();
        g
    }

    fn mark(&mut self) {
        let lj = self.jobs.iter().filter(|(_, j)| !j.forgotten && !j.terminated()).map(|(i, _)| *i).collect();
        let lw = self.workers.iter().copied().collect();
        self.prune_points.push((self.out.len(), lj, lw));
    }

    fn new_job_id(&mut self) -> u32 { let i = self.next_job; self.next_job += 1; i }

    fn crash_limit(&mut self) -> u32 {
        match self.rng.below(10) { 0 => 0, 1..=4 => self.rng.range(1, 3) as u32, _ => u32::MAX }
    }

    fn gen_desc(&mut self, existing: &BTreeMap<u32, GT>) -> Desc {
        let base = existing.keys().max().map(|m| m + 1).unwrap_or(0);
        if self.rng.chance(1, 2) {
            // array
            let start = base + if self.rng.chance(1, 4) { self.rng.below(3) as u32 } else { 0 };
            let mut ranges = vec![];
            let count = self.rng.range(1, 4) as u32;
            if self.rng.chance(1, 5) {
                let step = self.rng.range(2, 3) as u32;
                ranges.push((start, count * step, step));
            } else {
                ranges.push((start, count, 1));
            }
            if self.rng.chance(1, 5) {
                let s2 = ranges[0].0 + ranges[0].1 + self.rng.below(2) as u32;
                ranges.push((s2, self.rng.range(1, 2) as u32, 1));
            }
            let n = Desc::int_array(&ranges).iter().count() as u32;
            Desc::Array { ranges, entries: if self.rng.chance(1, 4) { Some(n) } else { None } }
        } else {
            let n = self.rng.range(1, 5) as u32;
            let mut ts: Vec<GTask> = vec![];
            // submit.rs (after fix 2a18501, F16) refuses a dependency on a failed / canceled / aborted task of the job
            let olds: Vec<u32> = existing.iter().filter(|(_, t)| t.st != St::Done).map(|(k, _)| *k).collect();
            for k in 0..n {
                let id = base + k;
                let mut deps = vec![];
                for e in &ts { if self.rng.chance(1, 3) { deps.push(e.id); } }
                for o in &olds { if self.rng.chance(1, 5) { deps.push(*o); } }
                if !deps.is_empty() && self.rng.chance(1, 8) { let d = deps[0]; deps.push(d); } // duplicate dep (Set dedups)
                ts.push(GTask { id, deps, rq_ok: true });
            }
            Desc::Graph(ts)
        }
    }

    fn attach(&mut self, job: u32, desc: &Desc) {
        let mut new: Vec<(u32, Vec<u32>)> = match desc {
            Desc::Array { .. } => desc.ids().into_iter().map(|i| (i, vec![])).collect(),
            Desc::Graph(ts) => ts.iter().map(|t| (t.id, t.deps.clone())).collect(),
        };
        for (id, deps) in new.drain(..) {
            let cl = self.crash_limit();
            let j = self.jobs.get_mut(&job).unwrap();
            let blocking = deps.into_iter().filter(|d| j.tasks.get(d).map(|t| matches!(t.st, St::Waiting | St::Running { .. })).unwrap_or(false)).collect();
            j.tasks.insert(id, GT { st: St::Waiting, blocking, inst: 0, last_started: None, crash: 0, crash_limit: cl });
        }
    }

    fn check_termination(&mut self, job: u32) {
        let j = self.jobs.get_mut(&job).unwrap();
        if !j.active() && !j.open && !j.completed {
            j.completed = true;
            self.out.push(Rec::JDone(job));
        }
    }

    fn consumers(&self, job: u32, root: u32) -> Vec<u32> {
        let j = &self.jobs[&job];
        let mut set = BTreeSet::new();
        let mut todo = vec![root];
        while let Some(x) = todo.pop() {
            for (id, t) in &j.tasks {
                if t.blocking.contains(&x) && matches!(t.st, St::Waiting | St::Running { .. }) && set.insert(*id) {
                    todo.push(*id);
                }
            }
        }
        set.into_iter().collect()
    }

    fn abort(&mut self, job: u32, ids: &[u32]) {
        if ids.is_empty() { return; }
        for t in ids { self.jobs.get_mut(&job).unwrap().tasks.get_mut(t).unwrap().st = St::Done; }
        self.out.push(Rec::TAbort(ids.iter().map(|t| (job, *t)).collect()));
        self.check_termination(job);
    }

    /// `State::process_task_failed`
    fn fail(&mut self, job: u32, task: u32) {
        if self.jobs[&job].completed { return; }
        if !matches!(self.jobs[&job].tasks[&task].st, St::Waiting | St::Running { .. }) { return; }
        let cons = self.consumers(job, task);
        self.abort(job, &cons);
        let j = self.jobs.get_mut(&job).unwrap();
        j.tasks.get_mut(&task).unwrap().st = St::Done;
        j.n_failed += 1;
        self.out.push(Rec::TFail(job, task));
        self.check_termination(job);
        let j = &self.jobs[&job];
        if let Some(mf) = j.mf {
            if j.n_failed > mf {
                let rest: Vec<u32> = j.tasks.iter().filter(|(_, t)| matches!(t.st, St::Waiting | St::Running { .. })).map(|(i, _)| *i).collect();
                self.abort(job, &rest);
            }
        }
    }

    fn live_jobs(&self) -> Vec<u32> {
        self.jobs.iter().filter(|(_, j)| !j.completed && !j.forgotten).map(|(i, _)| *i).collect()
    }

    fn ready_tasks(&self) -> Vec<(u32, u32)> {
        let mut v = vec![];
        for (jid, j) in &self.jobs {
            if j.completed { continue; }
            for (tid, t) in &j.tasks {
                if t.st == St::Waiting && t.blocking.iter().all(|d| j.tasks[d].st == St::Finished) {
                    v.push((*jid, *tid));
                }
            }
        }
        v
    }

    fn running_tasks(&self) -> Vec<(u32, u32)> {
        let mut v = vec![];
        for (jid, j) in &self.jobs {
            for (tid, t) in &j.tasks { if matches!(t.st, St::Running { .. }) { v.push((*jid, *tid)); } }
        }
        v
    }

    /// one server-level action; returns false if nothing was possible
    pub fn action(&mut self) {
        let w = [8, 4, 8, 4, 4, 22, 14, 6, 8, 6, 5, 4, 3, 2];
        let a = self.rng.weighted(&w);
        let before = self.out.len();
        match a {
            0 => { // closed-job submit
                let job = self.new_job_id();
                let mf = if self.rng.chance(1, 4) { Some(self.rng.below(2) as u32) } else { None };
                let desc = self.gen_desc(&BTreeMap::new());
                self.out.push(Rec::Submit { job, closed: true, mf, desc: desc.clone() });
                self.jobs.insert(job, GJ { open: false, mf, tasks: BTreeMap::new(), n_failed: 0, completed: false, forgotten: false });
                self.attach(job, &desc);
            }
            1 => { // open job
                let job = self.new_job_id();
                let mf = if self.rng.chance(1, 4) { Some(self.rng.below(2) as u32) } else { None };
                self.out.push(Rec::JOpen(job, mf));
                self.jobs.insert(job, GJ { open: true, mf, tasks: BTreeMap::new(), n_failed: 0, completed: false, forgotten: false });
            }
            2 => { // submit into an open job
                let open: Vec<u32> = self.jobs.iter().filter(|(_, j)| j.open).map(|(i, _)| *i).collect();
                if open.is_empty() { return self.action_fallback(); }
                let job = *self.rng.pick(&open);
                let existing = self.jobs[&job].tasks.clone();
                let mf = self.jobs[&job].mf;
                let desc = self.gen_desc(&existing);
                self.out.push(Rec::Submit { job, closed: false, mf, desc: desc.clone() });
                self.attach(job, &desc);
            }
            3 => { // close
                let open: Vec<u32> = self.jobs.iter().filter(|(_, j)| j.open).map(|(i, _)| *i).collect();
                if open.is_empty() { return self.action_fallback(); }
                let job = *self.rng.pick(&open);
                self.jobs.get_mut(&job).unwrap().open = false;
                self.out.push(Rec::JClose(job));
                self.check_termination(job);
            }
            4 => { // cancel a job
                let live = self.live_jobs();
                if live.is_empty() { return self.action_fallback(); }
                let job = *self.rng.pick(&live);
                let ids: Vec<u32> = self.jobs[&job].tasks.iter().filter(|(_, t)| matches!(t.st, St::Waiting | St::Running { .. })).map(|(i, _)| *i).collect();
                if ids.is_empty() { return self.action_fallback(); }
                for t in &ids { self.jobs.get_mut(&job).unwrap().tasks.get_mut(t).unwrap().st = St::Done; }
                self.out.push(Rec::JCancel(job));
                let mut batch: Vec<(u32, u32)> = ids.iter().map(|t| (job, *t)).collect();
                if self.multi_job_batches && self.rng.chance(1, 2) {
                    // a batch spanning two jobs (prune.rs is written for it; the current server batches per job)
                    let others: Vec<u32> = self.live_jobs().into_iter().filter(|j| *j != job).collect();
                    if let Some(o) = others.first().copied() {
                        let oids: Vec<u32> = self.jobs[&o].tasks.iter().filter(|(_, t)| matches!(t.st, St::Waiting | St::Running { .. })).map(|(i, _)| *i).collect();
                        if !oids.is_empty() {
                            for t in &oids { self.jobs.get_mut(&o).unwrap().tasks.get_mut(t).unwrap().st = St::Done; }
                            self.out.push(Rec::JCancel(o));
                            batch.extend(oids.iter().map(|t| (o, *t)));
                            self.out.push(Rec::TCancel(batch));
                            self.check_termination(job);
                            self.check_termination(o);
                            self.mark();
                            return;
                        }
                    }
                }
                self.out.push(Rec::TCancel(batch));
                self.check_termination(job);
            }
            5 => { // start a ready task
                let ready = self.ready_tasks();
                let ws: Vec<u32> = self.workers.iter().copied().collect();
                if ready.is_empty() || ws.is_empty() { return self.action_fallback(); }
                let (job, task) = *self.rng.pick(&ready);
                let mut workers = vec![*self.rng.pick(&ws)];
                if ws.len() >= 2 && self.rng.chance(1, 5) {
                    for w in &ws { if !workers.contains(w) && workers.len() < 3 && self.rng.chance(2, 3) { workers.push(*w); } }
                }
                let t = self.jobs.get_mut(&job).unwrap().tasks.get_mut(&task).unwrap();
                t.st = St::Running { workers: workers.clone() };
                t.last_started = Some(t.inst);
                let inst = t.inst;
                self.out.push(Rec::TStart { job, task, inst, workers });
            }
            6 => { // finish
                let run = self.running_tasks();
                if run.is_empty() { return self.action_fallback(); }
                let (job, task) = *self.rng.pick(&run);
                self.jobs.get_mut(&job).unwrap().tasks.get_mut(&task).unwrap().st = St::Finished;
                self.out.push(Rec::TFin(job, task));
                self.check_termination(job);
            }
            7 => { // fail (running, or before start)
                let mut c = self.running_tasks();
                if self.fail_before_start && self.rng.chance(1, 2) && !self.workers.is_empty() { c.extend(self.ready_tasks()); }
                if c.is_empty() { return self.action_fallback(); }
                let (job, task) = *self.rng.pick(&c);
                self.fail(job, task);
            }
            8 => { // worker connects
                self.worker_counter += 1;
                let w = self.worker_counter;
                self.workers.insert(w);
                self.known_workers.insert(w);
                let alloc = if !self.allocs.is_empty() && self.rng.chance(1, 2) { Some(self.rng.pick(&self.allocs).0) } else if self.rng.chance(1, 10) { Some(999) } else { None };
                self.out.push(Rec::WConn(w, alloc));
            }
            9 => { // worker lost
                let ws: Vec<u32> = self.workers.iter().copied().collect();
                if ws.is_empty() { return self.action_fallback(); }
                let w = *self.rng.pick(&ws);
                let reason = *self.rng.pick(&Reason::ALL);
                self.workers.remove(&w);
                let mut running = vec![];
                for (jid, j) in self.jobs.iter_mut() {
                    for (tid, t) in j.tasks.iter_mut() {
                        match &mut t.st {
                            St::Running { workers } if workers[0] == w => {
                                t.st = St::Waiting;
                                t.inst += 1;
                                running.push((*jid, *tid));
                            }
                            St::Running { workers } => workers.retain(|x| *x != w),
                            St::Waiting if self.rng.chance(1, 10) => t.inst += 1, // was assigned/prefilled there
                            _ => {}
                        }
                    }
                }
                self.out.push(Rec::WLost(w, reason));
                for (job, task) in running {
                    let t = self.jobs.get_mut(&job).unwrap().tasks.get_mut(&task).unwrap();
                    if t.st != St::Waiting { continue; } // aborted meanwhile
                    if t.crash_limit == 0 {
                        self.fail(job, task);
                    } else if reason.is_failure() {
                        t.crash += 1;
                        if t.crash_limit != u32::MAX && t.crash >= t.crash_limit { self.fail(job, task); }
                    }
                }
            }
            10 => { // allocation queue events
                match self.rng.below(5) {
                    0 | 1 => { let q = self.next_queue; self.next_queue += 1; self.queues.insert(q); self.out.push(Rec::QNew(q)); }
                    2 => {
                        let qs: Vec<u32> = self.queues.iter().copied().collect();
                        if qs.is_empty() { return self.action_fallback(); }
                        let q = *self.rng.pick(&qs);
                        self.queues.remove(&q);
                        self.allocs.retain(|a| a.1 != q);
                        self.out.push(Rec::QDel(q));
                    }
                    _ => {
                        let qs: Vec<u32> = self.queues.iter().copied().collect();
                        if qs.is_empty() { return self.action_fallback(); }
                        let q = *self.rng.pick(&qs);
                        let a = self.next_alloc; self.next_alloc += 1;
                        self.allocs.push((a, q));
                        self.out.push(Rec::AQueued(q, a));
                        if self.rng.chance(1, 2) { self.out.push(Rec::AStart(q, a)); }
                        if self.rng.chance(1, 4) { self.out.push(Rec::AFin(q, a)); }
                    }
                }
            }
            11 => self.restart(),
            12 => { // forget completed jobs (no record; changes what prune sees as known jobs)
                for j in self.jobs.values_mut() { if j.completed && !j.forgotten { j.forgotten = true; } }
            }
            _ => { // persisted overview
                let ws: Vec<u32> = self.workers.iter().copied().collect();
                if ws.is_empty() { return self.action_fallback(); }
                let w = *self.rng.pick(&ws);
                self.out.push(Rec::WOver(w));
            }
        }
        let _ = before;
        self.mark();
    }

    fn action_fallback(&mut self) {
        // make progress towards a richer state
        if self.workers.is_empty() || self.rng.chance(1, 3) {
            self.worker_counter += 1;
            let w = self.worker_counter;
            self.workers.insert(w);
            self.known_workers.insert(w);
            self.out.push(Rec::WConn(w, None));
        } else {
            let job = self.new_job_id();
            let desc = self.gen_desc(&BTreeMap::new());
            self.out.push(Rec::Submit { job, closed: true, mf: None, desc: desc.clone() });
            self.jobs.insert(job, GJ { open: false, mf: None, tasks: BTreeMap::new(), n_failed: 0, completed: false, forgotten: false });
            self.attach(job, &desc);
        }
        self.mark();
    }

    /// server stops (gracefully or not) and is started again from the journal: what bootstrap + restore do
    fn restart(&mut self) {
        if self.rng.chance(1, 2) { self.out.push(Rec::Stop); }
        // counters as restore.rs seeds them
        let max_job = self.jobs.keys().max().copied().unwrap_or(0);
        self.next_job = max_job + 1;
        let max_w = self.known_workers.iter().max().copied().unwrap_or(0);
        self.worker_counter = max_w + 1;
        let max_q = self.out.iter().filter_map(|r| if let Rec::QNew(q) = r { Some(*q) } else { None }).max().unwrap_or(0);
        self.next_queue = max_q + 1;
        self.workers.clear();
        // completed jobs are gone from the State; running tasks are waiting again with instance = last started + 1
        for j in self.jobs.values_mut() {
            if j.completed { j.forgotten = true; }
            for t in j.tasks.values_mut() {
                if matches!(t.st, St::Running { .. }) { t.st = St::Waiting; }
                if matches!(t.st, St::Waiting) { t.inst = t.last_started.map(|i| i + 1).unwrap_or(0); }
            }
        }
        self.out.push(Rec::Start(self.uid.clone()));
    }
}
