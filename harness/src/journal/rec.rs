//! Abstract journal records (`Rec`) <-> trace tokens <-> real `Event`s.
use std::time::Duration;

use chrono::Utc;
use hyperqueue::common::arraydef::{IntArray, IntRange};
use hyperqueue::common::manager::info::{GetManagerInfo, ManagerInfo, ManagerType, WORKER_EXTRA_MANAGER_KEY};
use hyperqueue::common::serialization::Serialized;
use hyperqueue::server::autoalloc::QueueParameters;
use hyperqueue::server::event::Event;
use hyperqueue::server::event::payload::EventPayload;
use hyperqueue::transfer::messages::{
    JobDescription, JobSubmitDescription, JobTaskDescription, LocalResourceRqId, PinMode, SubmitRequest,
    TaskDescription, TaskKind, TaskKindProgram, TaskWithDependencies,
};
use tako::gateway::{LostWorkerReason, ResourceRequestVariants};
use tako::internal::worker::configuration::OverviewConfiguration;
use tako::program::ProgramDefinition;
use tako::resources::ResourceDescriptor;
use tako::worker::{ServerLostPolicy, WorkerConfiguration, WorkerOverview};
use tako::{JobId, JobTaskId, Map, TaskId, WorkerId};

use crate::util::list;

#[derive(Clone, Debug, PartialEq, Eq)]
pub struct GTask {
    pub id: u32,
    pub deps: Vec<u32>,
    pub rq_ok: bool,
}

#[derive(Clone, Debug, PartialEq, Eq)]
pub enum Desc {
    Array { ranges: Vec<(u32, u32, u32)>, entries: Option<u32> },
    Graph(Vec<GTask>),
}

impl Desc {
    pub fn int_array(ranges: &[(u32, u32, u32)]) -> IntArray {
        IntArray::new(ranges.iter().map(|(s, c, st)| IntRange::new(*s, *c, *st)).collect())
    }
    /// ids attached to the job
    pub fn ids(&self) -> Vec<u32> {
        match self {
            Desc::Array { ranges, .. } => Desc::int_array(ranges).iter().collect(),
            Desc::Graph(ts) => ts.iter().map(|t| t.id).collect(),
        }
    }
}

#[derive(Clone, Copy, Debug, PartialEq, Eq)]
pub enum Reason {
    Stopped,
    Conn,
    Hb,
    Idle,
    Time,
}

impl Reason {
    pub const ALL: [Reason; 5] = [Reason::Stopped, Reason::Conn, Reason::Hb, Reason::Idle, Reason::Time];
    pub fn is_failure(self) -> bool {
        matches!(self, Reason::Conn | Reason::Hb)
    }
    fn tok(self) -> &'static str {
        match self {
            Reason::Stopped => "stopped",
            Reason::Conn => "conn",
            Reason::Hb => "hb",
            Reason::Idle => "idle",
            Reason::Time => "time",
        }
    }
    fn real(self) -> LostWorkerReason {
        match self {
            Reason::Stopped => LostWorkerReason::Stopped,
            Reason::Conn => LostWorkerReason::ConnectionLost,
            Reason::Hb => LostWorkerReason::HeartbeatLost,
            Reason::Idle => LostWorkerReason::IdleTimeout,
            Reason::Time => LostWorkerReason::TimeLimitReached,
        }
    }
    fn from_real(r: LostWorkerReason) -> Reason {
        match r {
            LostWorkerReason::Stopped => Reason::Stopped,
            LostWorkerReason::ConnectionLost => Reason::Conn,
            LostWorkerReason::HeartbeatLost => Reason::Hb,
            LostWorkerReason::IdleTimeout => Reason::Idle,
            LostWorkerReason::TimeLimitReached => Reason::Time,
        }
    }
}

#[derive(Clone, Debug, PartialEq, Eq)]
pub enum Rec {
    Start(String),
    Stop,
    WConn(u32, Option<u32>),
    WLost(u32, Reason),
    WOver(u32),
    Submit { job: u32, closed: bool, mf: Option<u32>, desc: Desc },
    JOpen(u32, Option<u32>),
    JClose(u32),
    JCancel(u32),
    JDone(u32),
    TStart { job: u32, task: u32, inst: u32, workers: Vec<u32> },
    TFin(u32, u32),
    TFail(u32, u32),
    TCancel(Vec<(u32, u32)>),
    TAbort(Vec<(u32, u32)>),
    QNew(u32),
    QDel(u32),
    AQueued(u32, u32),
    AStart(u32, u32),
    AFin(u32, u32),
}

fn opt(x: Option<u32>) -> String {
    x.map(|v| v.to_string()).unwrap_or_else(|| "-".to_string())
}
fn pairs(v: &[(u32, u32)]) -> String {
    list(v.iter().map(|(a, b)| format!("{a}.{b}")))
}
fn sep_list(items: Vec<String>, sep: &str) -> String {
    if items.is_empty() { "-".to_string() } else { items.join(sep) }
}
fn b(x: bool) -> &'static str {
    if x { "1" } else { "0" }
}

impl Rec {
    pub fn tokens(&self) -> String {
        match self {
            Rec::Start(u) => format!("start {}", if u.is_empty() { "-" } else { u }),
            Rec::Stop => "stop".to_string(),
            Rec::WConn(w, a) => format!("wconn {w} {}", opt(*a)),
            Rec::WLost(w, r) => format!("wlost {w} {}", r.tok()),
            Rec::WOver(w) => format!("wover {w}"),
            Rec::Submit { job, closed, mf, desc } => {
                let d = match desc {
                    Desc::Array { ranges, entries } => format!(
                        "array {} {}",
                        sep_list(ranges.iter().map(|(s, c, st)| format!("{s}:{c}:{st}")).collect(), ";"),
                        opt(*entries)
                    ),
                    Desc::Graph(ts) => format!(
                        "graph {}",
                        sep_list(
                            ts.iter()
                                .map(|t| format!(
                                    "{}/{}/{}",
                                    t.id,
                                    sep_list(t.deps.iter().map(|d| d.to_string()).collect(), "+"),
                                    b(t.rq_ok)
                                ))
                                .collect(),
                            ";"
                        )
                    ),
                };
                format!("submit {job} {} {} {d}", b(*closed), opt(*mf))
            }
            Rec::JOpen(j, mf) => format!("jopen {j} {}", opt(*mf)),
            Rec::JClose(j) => format!("jclose {j}"),
            Rec::JCancel(j) => format!("jcancel {j}"),
            Rec::JDone(j) => format!("jdone {j}"),
            Rec::TStart { job, task, inst, workers } => format!("tstart {job} {task} {inst} {}", list(workers.iter())),
            Rec::TFin(j, t) => format!("tfin {j} {t}"),
            Rec::TFail(j, t) => format!("tfail {j} {t}"),
            Rec::TCancel(ids) => format!("tcancel {}", pairs(ids)),
            Rec::TAbort(ids) => format!("tabort {}", pairs(ids)),
            Rec::QNew(q) => format!("qnew {q}"),
            Rec::QDel(q) => format!("qdel {q}"),
            Rec::AQueued(q, a) => format!("aqueued {q} {a}"),
            Rec::AStart(q, a) => format!("astart {q} {a}"),
            Rec::AFin(q, a) => format!("afin {q} {a}"),
        }
    }

    pub fn parse(t: &[&str]) -> Option<Rec> {
        fn n(s: &str) -> Option<u32> { s.parse().ok() }
        fn on(s: &str) -> Option<Option<u32>> { if s == "-" { Some(None) } else { n(s).map(Some) } }
        fn bb(s: &str) -> Option<bool> { match s { "1" => Some(true), "0" => Some(false), _ => None } }
        fn sl<T>(s: &str, sep: char, f: impl Fn(&str) -> Option<T>) -> Option<Vec<T>> {
            if s == "-" { Some(vec![]) } else { s.split(sep).map(f).collect() }
        }
        fn pr(s: &str) -> Option<Vec<(u32, u32)>> {
            sl(s, ',', |p| { let (a, b) = p.split_once('.')?; Some((n(a)?, n(b)?)) })
        }
        Some(match t {
            ["start", u] => Rec::Start(if *u == "-" { String::new() } else { u.to_string() }),
            ["stop"] => Rec::Stop,
            ["wconn", w, a] => Rec::WConn(n(w)?, on(a)?),
            ["wlost", w, r] => Rec::WLost(n(w)?, *Reason::ALL.iter().find(|x| x.tok() == *r)?),
            ["wover", w] => Rec::WOver(n(w)?),
            ["submit", j, c, mf, "array", ids, e] => Rec::Submit {
                job: n(j)?, closed: bb(c)?, mf: on(mf)?,
                desc: Desc::Array {
                    ranges: sl(ids, ';', |r| { let p: Vec<&str> = r.split(':').collect(); if p.len() != 3 { return None; } Some((n(p[0])?, n(p[1])?, n(p[2])?)) })?,
                    entries: on(e)?,
                },
            },
            ["submit", j, c, mf, "graph", ts] => Rec::Submit {
                job: n(j)?, closed: bb(c)?, mf: on(mf)?,
                desc: Desc::Graph(sl(ts, ';', |g| {
                    let p: Vec<&str> = g.split('/').collect();
                    if p.len() != 3 { return None; }
                    Some(GTask { id: n(p[0])?, deps: sl(p[1], '+', n)?, rq_ok: bb(p[2])? })
                })?),
            },
            ["jopen", j, mf] => Rec::JOpen(n(j)?, on(mf)?),
            ["jclose", j] => Rec::JClose(n(j)?),
            ["jcancel", j] => Rec::JCancel(n(j)?),
            ["jdone", j] => Rec::JDone(n(j)?),
            ["tstart", j, t, i, ws] => Rec::TStart { job: n(j)?, task: n(t)?, inst: n(i)?, workers: sl(ws, ',', n)? },
            ["tfin", j, t] => Rec::TFin(n(j)?, n(t)?),
            ["tfail", j, t] => Rec::TFail(n(j)?, n(t)?),
            ["tcancel", ids] => Rec::TCancel(pr(ids)?),
            ["tabort", ids] => Rec::TAbort(pr(ids)?),
            ["qnew", q] => Rec::QNew(n(q)?),
            ["qdel", q] => Rec::QDel(n(q)?),
            ["aqueued", q, a] => Rec::AQueued(n(q)?, n(a)?),
            ["astart", q, a] => Rec::AStart(n(q)?, n(a)?),
            ["afin", q, a] => Rec::AFin(n(q)?, n(a)?),
            _ => return None,
        })
    }

    pub fn to_event(&self) -> Event {
        let tid = |j: u32, t: u32| TaskId::new(JobId::new(j), JobTaskId::new(t));
        let payload = match self {
            Rec::Start(u) => EventPayload::ServerStart { server_uid: u.clone() },
            Rec::Stop => EventPayload::ServerStop,
            Rec::WConn(w, a) => EventPayload::WorkerConnected(WorkerId::new(*w), Box::new(worker_cfg(*a))),
            Rec::WLost(w, r) => EventPayload::WorkerLost(WorkerId::new(*w), r.real()),
            Rec::WOver(w) => EventPayload::WorkerOverviewReceived(Box::new(WorkerOverview {
                id: WorkerId::new(*w),
                running_tasks: vec![],
                hw_state: None,
            })),
            Rec::Submit { job, closed, mf, desc } => EventPayload::Submit {
                job_id: JobId::new(*job),
                closed_job: *closed,
                serialized_desc: Serialized::new(&submit_request(*job, *closed, *mf, desc)).unwrap(),
            },
            Rec::JOpen(j, mf) => EventPayload::JobOpen(JobId::new(*j), JobDescription { name: format!("job{j}"), max_fails: *mf }),
            Rec::JClose(j) => EventPayload::JobClose(JobId::new(*j)),
            Rec::JCancel(j) => EventPayload::JobCancel { job_id: JobId::new(*j), cancel_reason: "because".to_string() },
            Rec::JDone(j) => EventPayload::JobCompleted(JobId::new(*j)),
            Rec::TStart { job, task, inst, workers } => EventPayload::TaskStarted {
                task_id: tid(*job, *task),
                instance_id: (*inst).into(),
                worker_ids: workers.iter().map(|w| WorkerId::new(*w)).collect(),
                rv_id: 0.into(),
            },
            Rec::TFin(j, t) => EventPayload::TaskFinished { task_id: tid(*j, *t) },
            Rec::TFail(j, t) => EventPayload::TaskFailed { task_id: tid(*j, *t), error: "some error".to_string() },
            Rec::TCancel(ids) => EventPayload::TasksCanceled { task_ids: ids.iter().map(|(j, t)| tid(*j, *t)).collect() },
            Rec::TAbort(ids) => EventPayload::TasksAborted { task_ids: ids.iter().map(|(j, t)| tid(*j, *t)).collect() },
            Rec::QNew(q) => EventPayload::AllocationQueueCreated(*q, Box::new(queue_params())),
            Rec::QDel(q) => EventPayload::AllocationQueueRemoved(*q),
            Rec::AQueued(q, a) => EventPayload::AllocationQueued { queue_id: *q, allocation_id: a.to_string(), worker_count: 1 },
            Rec::AStart(q, a) => EventPayload::AllocationStarted(*q, a.to_string()),
            Rec::AFin(q, a) => EventPayload::AllocationFinished(*q, a.to_string()),
        };
        Event { time: Utc::now(), payload }
    }

    /// decode a real event (as read back by the real `JournalReader`) into the abstract record
    pub fn from_event(e: &Event) -> Option<Rec> {
        let pair = |t: &TaskId| (t.job_id().as_num(), t.job_task_id().as_num());
        Some(match &e.payload {
            EventPayload::ServerStart { server_uid } => Rec::Start(server_uid.clone()),
            EventPayload::ServerStop => Rec::Stop,
            EventPayload::WorkerConnected(w, cfg) => Rec::WConn(
                w.as_num(),
                cfg.get_manager_info().and_then(|i| i.allocation_id.parse().ok()),
            ),
            EventPayload::WorkerLost(w, r) => Rec::WLost(w.as_num(), Reason::from_real(*r)),
            EventPayload::WorkerOverviewReceived(o) => Rec::WOver(o.id.as_num()),
            EventPayload::Submit { job_id, closed_job, serialized_desc } => {
                let rq: SubmitRequest = serialized_desc.deserialize().ok()?;
                let desc = match &rq.submit_desc.task_desc {
                    JobTaskDescription::Array { ids, entries, .. } => {
                        let v = serde_json::to_value(ids).ok()?;
                        let ranges = v["ranges"]
                            .as_array()?
                            .iter()
                            .map(|r| (r["start"].as_u64().unwrap() as u32, r["count"].as_u64().unwrap() as u32, r["step"].as_u64().unwrap() as u32))
                            .collect();
                        Desc::Array { ranges, entries: entries.as_ref().map(|e| e.len() as u32) }
                    }
                    JobTaskDescription::Graph { tasks, resource_rqs } => Desc::Graph(
                        tasks
                            .iter()
                            .map(|t| GTask {
                                id: t.id.as_num(),
                                deps: t.task_deps.iter().map(|d| d.as_num()).collect(),
                                rq_ok: t.resource_rq_id.as_usize() < resource_rqs.len(),
                            })
                            .collect(),
                    ),
                };
                Rec::Submit { job: job_id.as_num(), closed: *closed_job, mf: rq.job_desc.max_fails, desc }
            }
            EventPayload::JobOpen(j, d) => Rec::JOpen(j.as_num(), d.max_fails),
            EventPayload::JobClose(j) => Rec::JClose(j.as_num()),
            EventPayload::JobCancel { job_id, .. } => Rec::JCancel(job_id.as_num()),
            EventPayload::JobCompleted(j) => Rec::JDone(j.as_num()),
            EventPayload::TaskStarted { task_id, instance_id, worker_ids, .. } => Rec::TStart {
                job: task_id.job_id().as_num(),
                task: task_id.job_task_id().as_num(),
                inst: instance_id.as_num(),
                workers: worker_ids.iter().map(|w| w.as_num()).collect(),
            },
            EventPayload::TaskFinished { task_id } => { let (j, t) = pair(task_id); Rec::TFin(j, t) }
            EventPayload::TaskFailed { task_id, .. } => { let (j, t) = pair(task_id); Rec::TFail(j, t) }
            EventPayload::TasksCanceled { task_ids } => Rec::TCancel(task_ids.iter().map(pair).collect()),
            EventPayload::TasksAborted { task_ids } => Rec::TAbort(task_ids.iter().map(pair).collect()),
            EventPayload::AllocationQueueCreated(q, _) => Rec::QNew(*q),
            EventPayload::AllocationQueueRemoved(q) => Rec::QDel(*q),
            EventPayload::AllocationQueued { queue_id, allocation_id, .. } => Rec::AQueued(*queue_id, allocation_id.parse().ok()?),
            EventPayload::AllocationStarted(q, a) => Rec::AStart(*q, a.parse().ok()?),
            EventPayload::AllocationFinished(q, a) => Rec::AFin(*q, a.parse().ok()?),
            EventPayload::JobIdle(_) | EventPayload::TaskNotify(_) => return None,
        })
    }
}

pub fn worker_cfg(alloc: Option<u32>) -> WorkerConfiguration {
    let mut extra: Map<String, String> = Map::new();
    if let Some(a) = alloc {
        extra.insert(
            WORKER_EXTRA_MANAGER_KEY.to_string(),
            serde_json::to_string(&ManagerInfo {
                manager: ManagerType::Slurm,
                allocation_id: a.to_string(),
                time_limit: None,
                max_memory_mb: None,
            })
            .unwrap(),
        );
    }
    WorkerConfiguration {
        resources: ResourceDescriptor::simple_cpus(4),
        listen_address: "verif:1".to_string(),
        hostname: "verif".to_string(),
        group: "default".to_string(),
        work_dir: "/tmp".into(),
        heartbeat_interval: Duration::from_secs(8),
        overview_configuration: OverviewConfiguration::disabled(),
        idle_timeout: None,
        time_limit: None,
        retract_check_interval: Duration::from_secs(1),
        on_server_lost: ServerLostPolicy::Stop,
        min_utilization: 0.0,
        extra,
    }
}

fn queue_params() -> QueueParameters {
    QueueParameters {
        manager: ManagerType::Slurm,
        max_workers_per_alloc: 1,
        backlog: 1,
        timelimit: Duration::from_secs(3600),
        name: None,
        max_worker_count: None,
        min_utilization: 0.0,
        additional_args: vec![],
        worker_start_cmd: None,
        worker_stop_cmd: None,
        worker_wrap_cmd: None,
        cli_resource_descriptor: None,
        worker_args: vec![],
        idle_timeout: None,
    }
}

fn task_desc() -> TaskDescription {
    TaskDescription {
        kind: TaskKind::ExternalProgram(TaskKindProgram {
            program: ProgramDefinition {
                args: vec!["sleep".into(), "1".into()],
                env: Default::default(),
                stdout: Default::default(),
                stderr: Default::default(),
                stdin: vec![],
                cwd: "/tmp".into(),
            },
            pin_mode: PinMode::None,
            task_dir: false,
        }),
        time_limit: None,
        priority: Default::default(),
        crash_limit: Default::default(),
    }
}

pub fn submit_request(job: u32, closed: bool, mf: Option<u32>, desc: &Desc) -> SubmitRequest {
    let task_desc_v = match desc {
        Desc::Array { ranges, entries } => JobTaskDescription::Array {
            ids: Desc::int_array(ranges),
            entries: entries.map(|n| (0..n).map(|i| vec![b'e', i as u8].into_iter().collect()).collect()),
            resource_rq: ResourceRequestVariants::default(),
            task_desc: task_desc(),
        },
        Desc::Graph(ts) => JobTaskDescription::Graph {
            resource_rqs: vec![ResourceRequestVariants::default()],
            tasks: ts
                .iter()
                .map(|t| TaskWithDependencies {
                    id: JobTaskId::new(t.id),
                    resource_rq_id: LocalResourceRqId::new(if t.rq_ok { 0 } else { 7 }),
                    task_desc: task_desc(),
                    task_deps: t.deps.iter().map(|d| JobTaskId::new(*d)).collect(),
                })
                .collect(),
        },
    };
    SubmitRequest {
        job_desc: JobDescription { name: format!("job{job}"), max_fails: mf },
        submit_desc: JobSubmitDescription { task_desc: task_desc_v, submit_dir: "/tmp".into(), stream_path: None },
        job_id: if closed { None } else { Some(JobId::new(job)) },
    }
}
