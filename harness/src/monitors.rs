//! Harness-side monitors over a simulated cluster run: the decidable form of the conclusions of C01, C02,
//! C03, C05, C06, C07, C08, C14 evaluated on what the REAL code did (events, launches, core and job
//! snapshots). A failing monitor gives a concrete failing input (the case up to that step).
use std::collections::{BTreeMap, BTreeSet};

use hyperqueue::server::event::payload::EventPayload;
use tako::TaskId;
use tako::internal::messages::worker::ToWorkerMessage;
use tako::verif::sched::{RecRq, Record};
use tako::verif::server::{CoreSnapshot, SnapTaskState};

use crate::sim::{tid, tids};
use crate::world::{JobSnap, Launch};

#[derive(Default)]
pub struct Monitors {
    pub fails: Vec<String>,
    terminal: BTreeSet<TaskId>,
    started: BTreeMap<TaskId, u32>,
    /// task -> worker of its last reported start that has not ended
    running_on: BTreeMap<TaskId, u32>,
    /// (worker, task) executions that ended successfully in the launcher
    pub finished_ok: BTreeSet<(u32, TaskId)>,
    /// tasks named in an answered cancel (non-terminal at that moment)
    cancelled: BTreeSet<TaskId>,
    /// per worker: tasks for which it processed CancelTasks / emitted RetractResponse and no later ComputeTasks
    worker_cancelled: BTreeMap<u32, BTreeSet<TaskId>>,
    worker_given_back: BTreeMap<u32, BTreeSet<TaskId>>,
    deps: BTreeMap<TaskId, Vec<TaskId>>,
    rqs: Vec<Vec<RecRq>>,
    task_rq: BTreeMap<TaskId, u32>,
    launches_seen: usize,
    last_instance: BTreeMap<TaskId, u32>,
    /// workers on which a prefilled task started although the server had already given the resources of
    /// the finished/cancelled task to another assigned task (the books saturate there): finding F29
    pub prefill_saturated: BTreeSet<u32>,
    /// number of failure losses (connection / heartbeat lost) of a worker that was reported running the task
    expected_crashes: BTreeMap<TaskId, u32>,
    /// termination time (ms on the harness clock) of every worker with a time limit
    pub worker_term: BTreeMap<u32, u64>,
    /// the same as the WORKER knows it (earlier than the server believes when time passed unseen: `age_worker`)
    pub worker_true_term: BTreeMap<u32, u64>,
    pub now_ms: u64,
    /// terminal tasks already reported as unannounced
    unannounced: BTreeSet<TaskId>,
    /// tasks for which the server announced a successful finish (kept after their job was forgotten)
    finished_evt: BTreeSet<TaskId>,
    /// tasks that existed in a job at the moment its number of failed tasks exceeded max_fails (C14); tasks
    /// submitted into the still-open job later are not "remaining tasks" of that moment
    exceeded: BTreeSet<TaskId>,
}

impl Monitors {
    fn fail(&mut self, clause: &str, sig: &str, detail: String) {
        self.fails.push(format!("mon FAIL {clause} {sig} {detail}"));
    }

    pub fn records(&mut self, recs: &[Record]) {
        for r in recs {
            match r {
                Record::NewRq(_, v) => self.rqs.push(v.clone()),
                Record::NewTasks(ts) => {
                    for t in ts {
                        self.deps.insert(t.id, t.deps.clone());
                        self.task_rq.insert(t.id, t.rq);
                    }
                }
                _ => {}
            }
        }
    }

    pub fn cancel_answered(&mut self, ids: impl Iterator<Item = TaskId>) {
        self.cancelled.extend(ids);
    }

    /// C08 "any execution still in progress is stopped": after a cancel was answered, every worker that is
    /// executing a cancelled task must have been sent CancelTasks naming it (`told` = messages sent in this action)
    pub fn cancel_stops(&mut self, cancelled_now: &[TaskId], executing: &[(u32, TaskId)], told: &[(u32, ToWorkerMessage)]) {
        for (w, t) in executing {
            if cancelled_now.contains(t) {
                let ok = told.iter().any(|(ww, m)| ww == w && matches!(m, ToWorkerMessage::CancelTasks(c) if c.ids.contains(t)));
                if !ok {
                    self.fail("c08.stop", "cancelled-execution-not-told-to-stop", format!("task {} was cancelled while executing on worker {} but no CancelTasks naming it was sent there", tid(*t), w));
                }
            }
        }
    }

    /// C13: auto-assigned ids continue directly after the largest existing id
    pub fn auto_ids(&mut self, job: u32, max_before: Option<u32>, count: u32, new_ids: &[u32]) {
        let start = max_before.map(|m| m + 1).unwrap_or(0);
        let expect: Vec<u32> = (start..start + count).collect();
        let mut got = new_ids.to_vec();
        got.sort();
        if got != expect {
            self.fail("c13.auto_ids", "not-after-largest-id", format!("job {job}: auto-assigned ids {:?}, expected {:?} (largest existing id {:?})", got, expect, max_before));
        }
    }

    /// a panic inside the job layer is how the implementation refuses an out-of-order report
    pub fn job_layer_panic(&mut self, site: &str, msg: &str) {
        let m = msg.replace('\n', " ");
        match site {
            "job.set_finished_state" => self.fail("c01.outcome_once", "finish-without-start-refused", format!("the job layer refused a finish report of a task that is not running: {m}")),
            "job.set_failed_state" | "job.set_cancel_state" | "job.abort_tasks" => {
                self.fail("c01.outcome_once", "second-outcome-refused", format!("the job layer refused a second terminal transition: {m}"))
            }
            "job.set_waiting_state" => self.fail("c07.loss", "running-list-mismatch", format!("a task reported running at a worker loss is not running in the job layer: {m}")),
            _ => {}
        }
    }

    pub fn events(&mut self, evs: &[EventPayload]) {
        for e in evs {
            match e {
                EventPayload::TaskStarted { task_id, worker_ids, .. } => {
                    if self.terminal.contains(task_id) {
                        self.fail("c01.outcome_once", "start-after-outcome", format!("task {} reported started after its outcome", tid(*task_id)));
                    }
                    if self.exceeded.contains(task_id) {
                        self.fail("c14.abort_all", "start-after-limit", format!("task {} started after its job exceeded max_fails", tid(*task_id)));
                    }
                    if self.cancelled.contains(task_id) {
                        self.fail("c08.cancel_final", "report-after-cancel", format!("task {} reported started after the cancel was answered", tid(*task_id)));
                    }
                    *self.started.entry(*task_id).or_insert(0) += 1;
                    if let Some(w) = worker_ids.first() {
                        self.running_on.insert(*task_id, w.as_num());
                    }
                }
                EventPayload::TaskFinished { task_id } => {
                    if self.started.get(task_id).copied().unwrap_or(0) == 0 {
                        self.fail("c01.outcome_once", "finish-without-start", format!("task {} finished without a start", tid(*task_id)));
                    }
                    if !self.finished_ok.iter().any(|(_, t)| t == task_id) {
                        self.fail("c01.outcome_once", "finish-without-successful-run", format!("task {} reported finished but no worker ran it to successful completion", tid(*task_id)));
                    }
                    self.finished_evt.insert(*task_id);
                    self.outcome(*task_id, "finished");
                }
                EventPayload::TaskFailed { task_id, .. } => self.outcome(*task_id, "failed"),
                EventPayload::TasksCanceled { task_ids } => {
                    for t in task_ids {
                        self.outcome_kind(*t, "canceled", true);
                    }
                }
                EventPayload::TasksAborted { task_ids } => {
                    for t in task_ids {
                        self.outcome_kind(*t, "aborted", true);
                    }
                }
                _ => {}
            }
        }
    }

    fn outcome(&mut self, t: TaskId, kind: &str) {
        self.outcome_kind(t, kind, false)
    }

    fn outcome_kind(&mut self, t: TaskId, kind: &str, by_cancel: bool) {
        if !self.terminal.insert(t) {
            self.fail("c01.outcome_once", "second-outcome", format!("task {} got a second terminal report ({kind})", tid(t)));
        }
        if !by_cancel && self.cancelled.contains(&t) {
            self.fail("c08.cancel_final", "report-after-cancel", format!("task {} reported {kind} after the cancel was answered", tid(t)));
        }
        self.running_on.remove(&t);
    }

    /// C07 / C13 in the job layer: right after the `on_worker_lost` callback every task of its running list is waiting
    /// again in the job layer (it is not running anywhere) — whatever the reason of the loss and however many tasks of
    /// the job have failed before
    pub fn worker_lost_jobs(&mut self, worker: u32, running: &[TaskId], jobs: &[JobSnap]) {
        for t in running {
            let st = jobs
                .iter()
                .find(|j| j.id == t.job_id().as_num())
                .and_then(|j| j.tasks.iter().find(|(k, _)| *k == t.job_task_id().as_num()))
                .map(|(_, s)| *s);
            if st == Some('R') {
                let d = format!("worker {worker} was lost while the server reported task {} running there; right after the callback the job layer still shows it running", tid(*t));
                self.fail("c07.loss", "lost-task-still-running-in-job-layer", d.clone());
                self.fail("c13.counters", "stale-running-after-worker-loss", d);
            }
        }
    }

    /// C01: every task the job layer shows with an outcome had that outcome announced (exactly once: `outcome_kind`)
    pub fn announced(&mut self, jobs: &[JobSnap]) {
        for j in jobs {
            for (t, s) in &j.tasks {
                if matches!(*s, 'F' | 'X' | 'C' | 'A') {
                    let id = TaskId::new(tako::JobId::new(j.id), tako::JobTaskId::new(*t));
                    if !self.terminal.contains(&id) && self.unannounced.insert(id) {
                        self.fail("c01.outcome_once", "outcome-not-announced", format!("task {} is {} in the job layer but no event announced that outcome", tid(id), match *s { 'F' => "finished", 'X' => "failed", 'C' => "canceled", _ => "aborted" }));
                    }
                }
            }
        }
    }

    /// C08: after the cancel of a job was answered no task of it is left waiting or running in the job layer
    pub fn cancel_leaves_nothing(&mut self, job: u32, jobs: &[JobSnap]) {
        if let Some(j) = jobs.iter().find(|j| j.id == job) {
            let left: Vec<u32> = j.tasks.iter().filter(|(_, s)| *s == 'W' || *s == 'R').map(|(t, _)| *t).collect();
            if !left.is_empty() {
                self.fail("c08.cancel_final", "tasks-left-after-cancel", format!("the cancel of job {job} was answered but its tasks {:?} are still waiting / running", left));
            }
        }
    }

    /// C14 "none of them ... keeps running": every execution in progress of a task aborted because the job exceeded
    /// max_fails has been told to stop (a CancelTasks naming it is on its way to, or was processed by, that worker)
    pub fn abort_stops(&mut self, aborted: &[TaskId], executing: &[(u32, TaskId)], pending: &[(u32, Vec<TaskId>)]) {
        for (w, t) in executing {
            if aborted.contains(t) {
                let told = pending.iter().any(|(ww, ids)| ww == w && ids.contains(t)) || self.worker_cancelled.get(w).is_some_and(|s| s.contains(t));
                if !told {
                    self.fail("c14.abort_all", "aborted-execution-not-told-to-stop", format!("task {} was aborted (max_fails exceeded) while executing on worker {} but no CancelTasks naming it was sent there", tid(*t), w));
                }
            }
        }
    }

    /// the `running` list of an `on_worker_lost` callback
    pub fn worker_lost(&mut self, worker: u32, running: &[TaskId], is_failure: bool) {
        if is_failure {
            for t in running {
                *self.expected_crashes.entry(*t).or_insert(0) += 1;
            }
        }
        let mut expect: Vec<TaskId> = self.running_on.iter().filter(|(_, w)| **w == worker).map(|(t, _)| *t).collect();
        expect.sort();
        let mut got = running.to_vec();
        got.sort();
        if expect != got {
            self.fail(
                "c07.loss",
                "running-list-mismatch",
                format!("worker {worker} lost: server reports running [{}] but it had announced as started and not ended [{}]", tids(&got), tids(&expect)),
            );
        }
        for t in running {
            self.running_on.remove(t);
        }
        self.worker_cancelled.remove(&worker);
        self.worker_given_back.remove(&worker);
        self.prefill_saturated.remove(&worker);
    }

    pub fn worker_processed(&mut self, worker: u32, msg: &ToWorkerMessage) {
        match msg {
            ToWorkerMessage::CancelTasks(m) => self.worker_cancelled.entry(worker).or_default().extend(m.ids.iter().copied()),
            ToWorkerMessage::ComputeTasks(m) => {
                for t in &m.tasks {
                    if let Some(s) = self.worker_cancelled.get_mut(&worker) {
                        s.remove(&t.id);
                    }
                    if let Some(s) = self.worker_given_back.get_mut(&worker) {
                        s.remove(&t.id);
                    }
                }
            }
            _ => {}
        }
    }

    pub fn worker_gave_back(&mut self, worker: u32, ids: &[TaskId]) {
        self.worker_given_back.entry(worker).or_default().extend(ids.iter().copied());
    }

    /// new entries of the launch log
    pub fn launches(&mut self, log: &[Launch], jobs: &[JobSnap]) {
        let new: Vec<Launch> = log[self.launches_seen..].to_vec();
        self.launches_seen = log.len();
        for l in new {
            if self.worker_cancelled.get(&l.worker).is_some_and(|s| s.contains(&l.task)) {
                self.fail("c08.worker", "launch-after-cancel", format!("worker {} launched task {} after it processed CancelTasks for it", l.worker, tid(l.task)));
            }
            if self.worker_given_back.get(&l.worker).is_some_and(|s| s.contains(&l.task)) {
                self.fail("c06.given_back", "launch-after-retract-response", format!("worker {} launched task {} after it confirmed giving it back", l.worker, tid(l.task)));
            }
            if let Some(prev) = self.last_instance.get(&l.task) {
                if l.instance <= *prev {
                    self.fail("c06.instance", "instance-not-increasing", format!("task {} launched with instance {} after instance {}", tid(l.task), l.instance, prev));
                }
            }
            self.last_instance.insert(l.task, l.instance);
            // C03: every dependency finished successfully
            if let Some(deps) = self.deps.get(&l.task).cloned() {
                for d in deps {
                    let st = jobs
                        .iter()
                        .find(|j| j.id == d.job_id().as_num())
                        .and_then(|j| j.tasks.iter().find(|(t, _)| *t == d.job_task_id().as_num()))
                        .map(|(_, s)| *s);
                    // a forgotten job has no entry any more: then the announced finish decides
                    let st = st.or(if self.finished_evt.contains(&d) { Some('F') } else { None });
                    if st != Some('F') {
                        self.fail("c03.no_early_start", "started-before-dep-finished", format!("task {} launched on worker {} while its dependency {} is {:?}", tid(l.task), l.worker, tid(d), st));
                    }
                }
            }
        }
    }

    /// at most one connected worker executes a task
    pub fn executing(&mut self, running: &[(u32, TaskId)]) {
        let mut by_task: BTreeMap<TaskId, Vec<u32>> = BTreeMap::new();
        for (w, t) in running {
            by_task.entry(*t).or_default().push(*w);
        }
        for (t, ws) in by_task {
            if ws.len() > 1 {
                self.fail("c06.single", "two-live-executions", format!("task {} is executing on workers {:?}", tid(t), ws));
            }
        }
    }

    /// C03 propagate: dependents of failed/cancelled tasks must be terminal
    pub fn propagate(&mut self, jobs: &[JobSnap]) {
        let state = |t: &TaskId| -> Option<char> {
            jobs.iter()
                .find(|j| j.id == t.job_id().as_num())
                .and_then(|j| j.tasks.iter().find(|(x, _)| *x == t.job_task_id().as_num()))
                .map(|(_, s)| *s)
        };
        let mut bad = Vec::new();
        for (t, deps) in &self.deps {
            if let Some(s) = state(t) {
                if s == 'W' || s == 'R' {
                    for d in deps {
                        if matches!(state(d), Some('X') | Some('C') | Some('A')) {
                            bad.push((*t, *d));
                        }
                    }
                }
            }
        }
        for (t, d) in bad {
            self.fail("c03.propagate", "dependent-not-aborted", format!("task {} is still pending although its dependency {} failed or was cancelled", tid(t), tid(d)));
        }
    }

    fn need(&self, rq: u32, rv: u32, total: &[u64]) -> Option<Vec<u64>> {
        let r = self.rqs.get(rq as usize)?.get(rv as usize)?;
        let mut v = vec![0u64; total.len()];
        for e in &r.entries {
            let i = e.resource as usize;
            if i >= v.len() {
                return None;
            }
            v[i] = e.amount.unwrap_or(total[i]);
        }
        Some(v)
    }

    /// called before a RunningPrefilled(task, rv) of `worker` is delivered to the server
    pub fn before_running_prefilled(&mut self, worker: u32, task: TaskId, rv: u32, snap: &CoreSnapshot) {
        let Some(w) = snap.workers.iter().find(|w| w.id == worker) else { return };
        let Some((_, free, _)) = &w.sn else { return };
        let Some(t) = snap.tasks.iter().find(|t| t.id == task) else { return };
        if let Some(need) = self.need(t.rq, rv, &w.total) {
            if need.iter().zip(free.iter()).any(|(n, f)| n > f) {
                self.prefill_saturated.insert(worker);
            }
        }
    }

    /// C05: reservations of every worker add up to its total; multi-node workers hold exactly one task
    pub fn resinv(&mut self, snap: &CoreSnapshot) {
        let mut fails = Vec::new();
        // C03: every registered consumer of a task is a task the core knows (a removed task unregisters itself everywhere)
        for t in &snap.tasks {
            for c in &t.consumers {
                if !snap.tasks.iter().any(|x| x.id == *c) {
                    fails.push(("c03.propagate", "dangling-consumer", format!("task {} lists the consumer {} which the core no longer knows", tid(t.id), tid(*c))));
                }
            }
        }
        // C15: a backlog (prefill set) is given back as soon as a task of HIGHER priority of the same class becomes ready
        // (`check_dispose_prefill`): no ready priority level of a queue lies above the priority of its prefill set
        for (rq, q) in snap.queues.iter().enumerate() {
            if let (Some((pp, ids)), Some((top, tids))) = (&q.prefill, q.ready.first()) {
                if !ids.is_empty() && top > pp {
                    fails.push(("c15.prefill_priority", "lower-priority-backlog-kept", format!("queue {rq}: tasks {:?} are ready at priority {top} while the backlog {:?} was prefilled at the lower priority {pp}", tids.iter().map(|t| tid(*t)).collect::<Vec<_>>(), ids.iter().map(|t| tid(*t)).collect::<Vec<_>>())));
                }
            }
        }
        // C07: the crash counter of every task the core knows = failure losses of workers that ran it
        for t in &snap.tasks {
            let expect = self.expected_crashes.get(&t.id).copied().unwrap_or(0);
            if t.crashes != expect {
                fails.push(("c07.counter", "crash-count-mismatch", format!("task {} has crash counter {} but {} failure losses hit a worker that was running it", tid(t.id), t.crashes, expect)));
            }
        }
        for w in &snap.workers {
            if let Some((assigned, free, _)) = &w.sn {
                let mut sum = free.clone();
                let mut ok = true;
                for t in assigned {
                    let task = snap.tasks.iter().find(|x| x.id == *t);
                    let rv = match task.map(|x| &x.state) {
                        Some(SnapTaskState::Assigned(ww, v)) | Some(SnapTaskState::Running(ww, v)) if *ww == w.id => Some(*v),
                        Some(SnapTaskState::Retracting(_)) => snap.redirects.iter().find(|(x, ww, _)| x == t && *ww == w.id).map(|(_, _, v)| *v),
                        _ => None,
                    };
                    let need = rv.and_then(|v| self.need(task.unwrap().rq, v, &w.total));
                    match need {
                        Some(n) => {
                            for (i, x) in n.iter().enumerate() {
                                sum[i] += x;
                            }
                        }
                        None => {
                            ok = false;
                            fails.push(("c05.resinv", "reservation-without-owner", format!("worker {} reserves task {} whose state does not place it there", w.id, tid(*t))));
                        }
                    }
                }
                if ok && sum != w.total {
                    let sig = if self.prefill_saturated.contains(&w.id) { "overbooked-after-prefill-start-on-reassigned-resources" } else { "free-plus-reserved-not-total" };
                    fails.push(("c05.resinv", sig, format!("worker {}: free {:?} + reserved = {:?} but total {:?}", w.id, free, sum, w.total)));
                }
            }
            if let Some((t, _, _)) = &w.mn {
                let task = snap.tasks.iter().find(|x| x.id == *t);
                match task.map(|x| &x.state) {
                    Some(SnapTaskState::RunningMultiNode(ws)) if ws.contains(&w.id) => {
                        let groups: BTreeSet<&str> = ws.iter().filter_map(|x| snap.workers.iter().find(|y| y.id == *x)).map(|y| y.group.as_str()).collect();
                        let distinct: BTreeSet<u32> = ws.iter().copied().collect();
                        let n_nodes = self.rqs.get(task.unwrap().rq as usize).and_then(|v| v.first()).map(|r| r.n_nodes).unwrap_or(0);
                        if groups.len() > 1 {
                            fails.push(("c05.mn", "workers-from-several-groups", format!("multi-node task {} holds workers {:?} of groups {:?}", tid(*t), ws, groups)));
                        }
                        if distinct.len() != ws.len() {
                            fails.push(("c05.mn", "worker-twice", format!("multi-node task {} holds {:?}", tid(*t), ws)));
                        }
                        if ws.first() == Some(&w.id) && ws.len() as u32 != n_nodes && ws.len() as u32 > n_nodes {
                            fails.push(("c05.mn", "too-many-workers", format!("multi-node task {} asks {} nodes, holds {:?}", tid(*t), n_nodes, ws)));
                        }
                    }
                    _ => fails.push(("c05.mn", "mn-worker-without-task", format!("worker {} is reserved for {} which does not hold it", w.id, tid(*t)))),
                }
            }
        }
        for (c, s, d) in fails {
            self.fail(c, s, d);
        }
    }

    /// C05 "only places tasks where they can run": every single-node placement of a scheduling round goes to a
    /// worker that does not block that (request, variant), lives long enough for the time request and has the
    /// requested amounts free (all placements of the round on that worker added up)
    pub fn placement(&mut self, recs: &[Record], before: &CoreSnapshot, now_ms: u64) {
        let mut used: BTreeMap<u32, Vec<u64>> = BTreeMap::new();
        let mut fails = Vec::new();
        for r in recs {
            if let Record::Mn { rq, sets } = r {
                // multi-node placements: every chosen worker lives long enough for the time request
                if let Some(def) = self.rqs.get(*rq as usize).and_then(|v| v.first()).cloned() {
                    // every multi-node placement takes exactly the requested number of distinct workers
                    for set in sets {
                        let distinct: BTreeSet<u32> = set.iter().copied().collect();
                        if distinct.len() as u32 != def.n_nodes || set.len() as u32 != def.n_nodes {
                            fails.push(("c05.mn", "mn-wrong-node-count", format!("multi-node request {rq} asks {} nodes, a task was placed on workers {:?}", def.n_nodes, set)));
                        }
                    }
                    for w in sets.iter().flatten() {
                        // a worker that refused this request (hard reject: not enough time on ITS clock) blocks it for good
                        if before.workers.iter().any(|wk| wk.id == *w && wk.blocked.contains(&(*rq, 0))) {
                            fails.push(("c05.placement", "mn-blocked-request", format!("multi-node request {rq} placed on worker {w} which blocks it")));
                        }
                        if let Some(t) = self.worker_term.get(w) {
                            if now_ms + def.min_time_ms > *t {
                                fails.push(("c05.placement", "mn-not-enough-lifetime", format!("multi-node request {rq} (time request {} ms) placed on worker {w} with {} ms left", def.min_time_ms, t.saturating_sub(now_ms))));
                            }
                        }
                    }
                }
                continue;
            }
            let Record::Sn { rq, variant, counts, .. } = r else { continue };
            let Some(def) = self.rqs.get(*rq as usize).and_then(|v| v.get(*variant as usize)).cloned() else { continue };
            for (w, c) in counts {
                if *c == 0 {
                    continue;
                }
                let Some(wk) = before.workers.iter().find(|x| x.id == *w) else {
                    fails.push(("c05.placement", "unknown-worker", format!("placement of request {rq}/{variant} on unknown worker {w}")));
                    continue;
                };
                if wk.blocked.contains(&(*rq, *variant)) {
                    fails.push(("c05.placement", "blocked-request", format!("request {rq}/{variant} placed on worker {w} which blocks it")));
                }
                if let Some(t) = self.worker_term.get(w) {
                    if now_ms + def.min_time_ms > *t {
                        fails.push(("c05.placement", "not-enough-lifetime", format!("request {rq}/{variant} (time request {} ms) placed on worker {w} with {} ms left", def.min_time_ms, t.saturating_sub(now_ms))));
                    }
                }
                let Some((_, free, _)) = &wk.sn else {
                    fails.push(("c05.placement", "multi-node-worker", format!("single-node request {rq}/{variant} placed on worker {w} that holds a multi-node task")));
                    continue;
                };
                let u = used.entry(*w).or_insert_with(|| vec![0; free.len()]);
                for e in &def.entries {
                    let i = e.resource as usize;
                    if i >= free.len() {
                        fails.push(("c05.placement", "resource-not-provided", format!("request {rq}/{variant} needs resource {i} which worker {w} does not provide")));
                        continue;
                    }
                    u[i] += e.amount.unwrap_or(wk.total[i]) * *c as u64;
                    if u[i] > free[i] {
                        fails.push(("c05.placement", "more-than-free", format!("placements of this round on worker {w} need {} of resource {i} but only {} is free", u[i], free[i])));
                    }
                }
            }
        }
        for (c, s, d) in fails {
            self.fail(c, s, d);
        }
    }

    /// C14: once more tasks of a job have failed than max_fails allows, every task of the job is terminal
    /// (judged on the job snapshot taken right after the task-failed callback, independent of what the job layer
    /// hands back to the core) and none starts later (`events`)
    pub fn max_fails(&mut self, task: TaskId, ret: &[TaskId], jobs: &[JobSnap]) {
        if let Some(j) = jobs.iter().find(|j| j.id == task.job_id().as_num()) {
            let failed = j.tasks.iter().filter(|(_, s)| *s == 'X').count() as u32;
            let over = j.max_fails.map(|m| failed > m).unwrap_or(false);
            let pending: Vec<u32> = j.tasks.iter().filter(|(_, s)| *s == 'W' || *s == 'R').map(|(t, _)| *t).collect();
            if over {
                for (t, _) in &j.tasks {
                    self.exceeded.insert(TaskId::new(tako::JobId::new(j.id), tako::JobTaskId::new(*t)));
                }
            }
            if (over || !ret.is_empty()) && !pending.is_empty() {
                self.fail("c14.abort_all", "not-all-aborted", format!("job {}: {} failed task(s) exceed max_fails={:?} but tasks {:?} are still pending", j.id, failed, j.max_fails, pending));
            }
            if !over && !ret.is_empty() {
                self.fail("c14.abort_all", "abort-within-limit", format!("job {}: {} failed task(s) within max_fails={:?} but the job layer cancels {}", j.id, failed, j.max_fails, tids(ret)));
            }
        }
    }

    /// C02 at rest (after the fault-free drain)
    pub fn rest(&mut self, jobs: &[JobSnap], snap: &CoreSnapshot, completed: &BTreeMap<u32, u32>) {
        let mut fails = Vec::new();
        for j in jobs {
            let mut all_terminal = true;
            for (t, s) in &j.tasks {
                if *s == 'W' || *s == 'R' {
                    all_terminal = false;
                    let id = TaskId::new(tako::JobId::new(j.id), tako::JobTaskId::new(*t));
                    let core = snap.tasks.iter().find(|x| x.id == id);
                    if core.is_none() {
                        // C01: a task the job layer shows as unfinished but the scheduler has forgotten can never get its outcome
                        fails.push(("c01.outcome_once", "unfinished-task-unknown-to-core", format!("at rest task {} is {} in the job layer but the core does not know it: it will never be reported finished, failed or canceled", tid(id), s)));
                    }
                    let waiting_deps = matches!(core.map(|x| &x.state), Some(SnapTaskState::Waiting(n)) if *n > 0);
                    if waiting_deps {
                        continue;
                    }
                    // can any connected worker run it (by total resources; multi-node: enough workers in a group)?
                    let rq = core.map(|x| x.rq).or(self.task_rq.get(&id).copied());
                    let runnable = rq.and_then(|r| self.rqs.get(r as usize)).is_some_and(|variants| {
                        variants.iter().any(|v| {
                            if v.n_nodes > 0 {
                                // enough workers of one group that live long enough for the time request
                                let mut groups: BTreeMap<&str, u32> = BTreeMap::new();
                                for w in &snap.workers {
                                    if self.worker_true_term.get(&w.id).or(self.worker_term.get(&w.id)).is_none_or(|t| self.now_ms + v.min_time_ms <= *t) {
                                        *groups.entry(w.group.as_str()).or_insert(0) += 1;
                                    }
                                }
                                groups.values().any(|c| *c >= v.n_nodes)
                            } else {
                                snap.workers.iter().any(|w| {
                                    self.worker_true_term.get(&w.id).or(self.worker_term.get(&w.id)).is_none_or(|t| self.now_ms + v.min_time_ms <= *t) &&
                                    v.entries.iter().all(|e| {
                                        let tot = w.total.get(e.resource as usize).copied().unwrap_or(0);
                                        match e.amount {
                                            Some(a) => a <= tot,
                                            None => tot > 0,
                                        }
                                    })
                                })
                            }
                        })
                    });
                    if runnable {
                        // is there a pending multi-node task that no connected group can host?
                        let mut groups: BTreeMap<&str, u32> = BTreeMap::new();
                        for w in &snap.workers {
                            *groups.entry(w.group.as_str()).or_insert(0) += 1;
                        }
                        let max_group = groups.values().copied().max().unwrap_or(0);
                        // (a multi-node task no group can host: too few workers, or too few that live long enough)
                        let unhostable_mn = snap.tasks.iter().any(|t| {
                            matches!(t.state, SnapTaskState::Waiting(0))
                                && self.rqs.get(t.rq as usize).and_then(|v| v.first()).is_some_and(|r| {
                                    if r.n_nodes == 0 {
                                        return false;
                                    }
                                    let mut g: BTreeMap<&str, u32> = BTreeMap::new();
                                    for w in &snap.workers {
                                        if self.worker_true_term.get(&w.id).or(self.worker_term.get(&w.id)).is_none_or(|tt| self.now_ms + r.min_time_ms <= *tt) {
                                            *g.entry(w.group.as_str()).or_insert(0) += 1;
                                        }
                                    }
                                    r.n_nodes > max_group || !g.values().any(|c| *c >= r.n_nodes)
                                })
                        });
                        let sig = if unhostable_mn { "stuck-behind-unhostable-multinode" } else { "runnable-task-stuck" };
                        fails.push(("c02.rest", sig, format!("at rest task {} is {:?} in the core although a connected worker can run it", tid(id), core.map(|x| &x.state))));
                    }
                }
            }
            if all_terminal && !j.open && !j.tasks.is_empty() && completed.get(&j.id).copied().unwrap_or(0) == 0 {
                fails.push(("c02.rest", "closed-job-not-completed", format!("job {} is closed, all tasks terminal, but never reported completed", j.id)));
            }
            // a closed job WITHOUT tasks (a submit of zero entries) is closed with all its tasks terminal from the start
            if !j.open && j.tasks.is_empty() && completed.get(&j.id).copied().unwrap_or(0) == 0 {
                fails.push(("c13.completed_once", "empty-closed-job-never-completed", format!("job {} is closed and has no task, but was never reported completed", j.id)));
            }
        }
        for (c, s, d) in fails {
            self.fail(c, s, d);
        }
    }
}
