//! Component `autoalloc` (see /verif/FRAMEWORK.md, /verif/notes/autoalloc.md).
//!
//! Drives the real `handle_message` / `perform_submits` / `do_periodic_update` of
//! `crates/hyperqueue/src/server/autoalloc/process.rs` through `hyperqueue::verif::autoalloc::VerifAutoAlloc`
//! with a scripted batch system, a scripted worker-query answer and a mocked monotonic clock.
//!
//! ops (choices the real code resolved are printed into the op line *after* the op ran):
//!   addq bl= wpa= mwc= delays= msf= maf= qid=          AutoAllocMessage::AddQueue (limiter constants as the impl has them)
//!   wconn w= a=                                        AutoAllocMessage::WorkerConnected
//!   wlost w= a= r= life=                               AutoAllocMessage::WorkerLost
//!   job                                                AutoAllocMessage::JobSubmitted
//!   rmq q= force=                                      AutoAllocMessage::RemoveQueue
//!   pause q= | resume q=                               AutoAllocMessage::{PauseQueue,ResumeQueue}
//!   tick now= order= resp= res= dem= pert=             scheduling arm: `if has_active_queues { perform_submits }`
//!   refresh rep=                                       periodic arm:   `if has_active_queues { do_periodic_update }`
//! outs: sched resp tickres ran query submit rm ev | snapshot: queue lim alloc a2q | !panic
use std::cell::RefCell;
use std::collections::{BTreeMap, BTreeSet, VecDeque};
use std::io::BufRead;
use std::rc::Rc;
use std::time::Duration;

use hyperqueue::verif::autoalloc as hk;
use hyperqueue::verif::autoalloc::{
    VerifAllocState, VerifAutoAlloc, VerifEnv, VerifEvent, VerifQuery, VerifQueryResponse, VerifQueue,
    VerifQueueParams, VerifRemoveResult, VerifSnapshot, VerifStatus, VerifSubmit,
};
use tako::gateway::LostWorkerReason;

use crate::util::{self, GenArgs, Rng, Trace};

// ------------------------------------------------------------------------------------------------
// Environment (batch system + scheduler answer + clock)
// ------------------------------------------------------------------------------------------------

/// Demand of one queue = what the scheduler would answer for it: (sn workers, mn allocations, mn workers/alloc)
type Demand = (u32, u32, u32);

#[derive(Clone, Debug, PartialEq)]
enum ReportSpec {
    CallErr,
    Statuses(BTreeMap<u64, VerifStatus>),
}

#[derive(Default, Clone)]
struct Profile {
    /// probability (in %) that a submission fails
    p_fail: u64,
    /// probability (in %) that a submission returns an id that already exists
    p_dup: u64,
    /// weights of Q R F X E M
    status_w: [u64; 6],
    /// probability (in %) that the whole status call fails
    p_callerr: u64,
    /// probability (in %) that the query answer is perturbed (wrong length, bad index, error, oversize mn)
    p_pert: u64,
    /// probability (in %) of a multi-node demand
    p_mn: u64,
    name: &'static str,
}

struct Env {
    now: u64,
    rng: Rng,
    replay: bool,
    /// exhaustive mode: deterministic answers (submission succeeds?, status of every allocation)
    fixed: Option<(bool, VerifStatus)>,
    profile: Profile,
    // --- scripts for the current op
    demand: BTreeMap<u32, Demand>,
    /// queue tag (time limit) -> queue id is not available from the hook; queries are matched by position
    /// against `expected_queries` (ids of the queues the harness expects to be asked, from the pre-snapshot)
    expected_queries: Vec<u32>,
    script_results: VecDeque<VerifSubmit>,
    script_query: Option<Option<VerifQueryResponse>>,
    script_reports: BTreeMap<u32, ReportSpec>,
    // --- logs of the current op
    submit_log: Vec<(u32, u64, VerifSubmit)>,
    rm_log: Vec<(u32, String)>,
    query_log: Option<(usize, Option<VerifQueryResponse>)>,
    query_perturbed: bool,
    status_log: Vec<(u32, Vec<String>, Option<Vec<VerifStatus>>)>,
    script_underflow: bool,
    // --- id generation
    next_alloc_id: u64,
    known_ids: Vec<u64>,
}

impl Env {
    fn new(seed: u64, replay: bool, profile: Profile) -> Env {
        Env {
            now: 0,
            rng: Rng::new(seed ^ 0xA170A110C),
            replay,
            fixed: None,
            profile,
            demand: Default::default(),
            expected_queries: vec![],
            script_results: Default::default(),
            script_query: None,
            script_reports: Default::default(),
            submit_log: vec![],
            rm_log: vec![],
            query_log: None,
            query_perturbed: false,
            status_log: vec![],
            script_underflow: false,
            next_alloc_id: 1,
            known_ids: vec![],
        }
    }
    fn clear_logs(&mut self) {
        self.submit_log.clear();
        self.rm_log.clear();
        self.query_log = None;
        self.query_perturbed = false;
        self.status_log.clear();
        self.script_underflow = false;
    }
}

impl VerifEnv for Env {
    fn now_ms(&mut self) -> u64 {
        self.now
    }

    fn submit(&mut self, queue: u32, workers: u64) -> VerifSubmit {
        let r = if self.replay {
            match self.script_results.pop_front() {
                Some(r) => r,
                None => {
                    self.script_underflow = true;
                    VerifSubmit::Err
                }
            }
        } else if let Some((ok, _)) = self.fixed {
            if ok {
                let id = self.next_alloc_id;
                self.next_alloc_id += 1;
                VerifSubmit::Ok(id.to_string())
            } else {
                VerifSubmit::Fail
            }
        } else if self.rng.chance(self.profile.p_fail, 100) {
            if self.rng.chance(1, 4) { VerifSubmit::Err } else { VerifSubmit::Fail }
        } else if !self.known_ids.is_empty() && self.rng.chance(self.profile.p_dup, 100) {
            let id = *self.rng.pick(&self.known_ids);
            VerifSubmit::Ok(id.to_string())
        } else {
            let id = self.next_alloc_id;
            self.next_alloc_id += 1;
            VerifSubmit::Ok(id.to_string())
        };
        if let VerifSubmit::Ok(id) = &r {
            if let Ok(n) = id.parse::<u64>() {
                if !self.known_ids.contains(&n) {
                    self.known_ids.push(n);
                }
                self.next_alloc_id = self.next_alloc_id.max(n + 1);
            }
        }
        self.submit_log.push((queue, workers, r.clone()));
        r
    }

    fn statuses(&mut self, queue: u32, ids: &[String]) -> Option<Vec<VerifStatus>> {
        let r = if self.replay {
            match self.script_reports.get(&queue) {
                Some(ReportSpec::CallErr) => None,
                Some(ReportSpec::Statuses(m)) => Some(
                    ids.iter()
                        .map(|id| id.parse::<u64>().ok().and_then(|n| m.get(&n).copied()).unwrap_or(VerifStatus::Queued))
                        .collect(),
                ),
                None => Some(ids.iter().map(|_| VerifStatus::Queued).collect()),
            }
        } else if let Some((_, st)) = self.fixed {
            Some(ids.iter().map(|_| st).collect())
        } else if self.rng.chance(self.profile.p_callerr, 100) {
            None
        } else {
            const ALL: [VerifStatus; 6] = [
                VerifStatus::Queued,
                VerifStatus::Running,
                VerifStatus::Finished,
                VerifStatus::Failed,
                VerifStatus::Error,
                VerifStatus::Missing,
            ];
            let w = self.profile.status_w;
            Some(ids.iter().map(|_| ALL[self.rng.weighted(&w)]).collect())
        };
        self.status_log.push((queue, ids.to_vec(), r.clone()));
        r
    }

    fn remove(&mut self, queue: u32, id: &str) -> bool {
        self.rm_log.push((queue, id.to_string()));
        // the result is only logged by the real code
        self.replay || self.rng.chance(4, 5)
    }

    fn query(&mut self, queries: &[VerifQuery]) -> Option<VerifQueryResponse> {
        let n = queries.len();
        let r = if self.replay {
            match self.script_query.take() {
                Some(r) => r,
                None => {
                    self.script_underflow = true;
                    None
                }
            }
        } else {
            // the honest answer: the demand of the queues that are asked, by position
            let mut resp = VerifQueryResponse::default();
            for (i, _q) in queries.iter().enumerate() {
                let d = self.expected_queries.get(i).and_then(|q| self.demand.get(q)).copied().unwrap_or((0, 0, 0));
                resp.single_node_workers_per_query.push(d.0);
                if d.1 > 0 {
                    resp.multi_node_allocations.push((i, d.1, d.2));
                }
            }
            if self.expected_queries.len() != n {
                // the harness mispredicted which queues are asked: do not draw liveness conclusions
                self.query_perturbed = true;
            }
            if self.rng.chance(self.profile.p_pert, 100) {
                self.query_perturbed = true;
                match self.rng.below(6) {
                    0 => None,
                    1 => Some(VerifQueryResponse::default()), // scheduler did not finish: empty answer
                    2 => {
                        resp.single_node_workers_per_query.pop();
                        Some(resp)
                    }
                    3 => {
                        resp.single_node_workers_per_query.push(self.rng.range(0, 4) as u32);
                        Some(resp)
                    }
                    4 => {
                        // multi-node answer with a bad index or an oversized / zero allocation
                        let wt = if self.rng.chance(1, 3) { n + self.rng.below(2) as usize } else { self.rng.below(n as u64) as usize };
                        let wpa = match self.rng.below(3) {
                            0 => 0,
                            1 => queries.get(wt).map(|q| q.max_workers_per_allocation + 1).unwrap_or(2),
                            _ => 1,
                        };
                        resp.multi_node_allocations.push((wt, self.rng.range(1, 2) as u32, wpa));
                        Some(resp)
                    }
                    _ => {
                        for x in resp.single_node_workers_per_query.iter_mut() {
                            *x = self.rng.range(0, 9) as u32;
                        }
                        Some(resp)
                    }
                }
            } else {
                Some(resp)
            }
        };
        self.query_log = Some((n, r.clone()));
        r
    }
}

// ------------------------------------------------------------------------------------------------
// Ops
// ------------------------------------------------------------------------------------------------

#[derive(Clone, Debug)]
enum Op {
    AddQ { bl: u32, wpa: u32, mwc: Option<u32>, limiter: Option<(Vec<u64>, u64, u64)>, qid: Option<u32>, pbs: bool },
    WConn { w: u32, a: u64 },
    WLost { w: u32, a: u64, reason: LostWorkerReason, life: u64 },
    Job,
    RmQ { q: u32, force: bool },
    Pause { q: u32 },
    Resume { q: u32 },
    Tick { now: u64 },
    Refresh,
}

fn reason_str(r: LostWorkerReason) -> &'static str {
    match r {
        LostWorkerReason::Stopped => "stopped",
        LostWorkerReason::ConnectionLost => "connlost",
        LostWorkerReason::HeartbeatLost => "hblost",
        LostWorkerReason::IdleTimeout => "idle",
        LostWorkerReason::TimeLimitReached => "timelimit",
    }
}

fn parse_reason(s: &str) -> LostWorkerReason {
    match s {
        "stopped" => LostWorkerReason::Stopped,
        "connlost" => LostWorkerReason::ConnectionLost,
        "hblost" => LostWorkerReason::HeartbeatLost,
        "idle" => LostWorkerReason::IdleTimeout,
        _ => LostWorkerReason::TimeLimitReached,
    }
}

fn opt(o: Option<u32>) -> String {
    o.map(|x| x.to_string()).unwrap_or_else(|| "-".to_string())
}

fn status_letter(s: VerifStatus) -> &'static str {
    match s {
        VerifStatus::Queued => "Q",
        VerifStatus::Running => "R",
        VerifStatus::Finished => "F",
        VerifStatus::Failed => "X",
        VerifStatus::Error => "E",
        VerifStatus::Missing => "M",
    }
}

fn parse_status(s: &str) -> VerifStatus {
    match s {
        "Q" => VerifStatus::Queued,
        "R" => VerifStatus::Running,
        "F" => VerifStatus::Finished,
        "X" => VerifStatus::Failed,
        "E" => VerifStatus::Error,
        _ => VerifStatus::Missing,
    }
}

fn show_query(q: &Option<(usize, Option<VerifQueryResponse>)>) -> String {
    match q {
        None => "none".to_string(),
        Some((_, None)) => "err".to_string(),
        Some((_, Some(r))) => format!(
            "ok:{}:{}",
            util::list(r.single_node_workers_per_query.iter()),
            util::list(r.multi_node_allocations.iter().map(|(a, b, c)| format!("{a}/{b}/{c}")))
        ),
    }
}

fn parse_query(s: &str) -> Option<Option<VerifQueryResponse>> {
    let parts: Vec<&str> = s.split(':').collect();
    match parts[0] {
        "none" => None,
        "err" => Some(None),
        _ => {
            let sn = util::parse_list(parts[1]).into_iter().map(|x| x as u32).collect();
            let mn = if parts[2] == "-" {
                vec![]
            } else {
                parts[2]
                    .split(',')
                    .map(|it| {
                        let v: Vec<u64> = it.split('/').map(|x| x.parse().unwrap()).collect();
                        (v[0] as usize, v[1] as u32, v[2] as u32)
                    })
                    .collect()
            };
            Some(Some(VerifQueryResponse { single_node_workers_per_query: sn, multi_node_allocations: mn }))
        }
    }
}

fn show_subres(r: &VerifSubmit) -> String {
    match r {
        VerifSubmit::Ok(id) => format!("ok/{id}"),
        VerifSubmit::Fail => "fail".to_string(),
        VerifSubmit::Err => "err".to_string(),
    }
}

fn arg<'a>(toks: &[&'a str], key: &str) -> Option<&'a str> {
    toks.iter().find_map(|t| t.split_once('=').filter(|(k, _)| *k == key).map(|(_, v)| v))
}

// ------------------------------------------------------------------------------------------------
// Snapshot printing + helpers on snapshots
// ------------------------------------------------------------------------------------------------

fn aid(s: &str) -> u64 {
    s.parse::<u64>().unwrap_or(u64::MAX)
}

fn alloc_line(q: u32, a: &hk::VerifAllocation) -> String {
    let pre = format!("alloc {} {} t={} ", q, a.id, a.target_worker_count);
    match &a.state {
        VerifAllocState::Queued { status_error_count } => format!("{pre}Q e={status_error_count}"),
        VerifAllocState::Running { connected, disconnected, status_error_count } => {
            format!("{pre}R e={status_error_count} c={} d={}", util::list(connected), util::list(disconnected))
        }
        VerifAllocState::Finished { disconnected } => format!("{pre}F d={}", util::list(disconnected)),
        VerifAllocState::FinishedUnexpectedly { connected, disconnected, failed } => {
            format!("{pre}U f={} c={} d={}", *failed as u8, util::list(connected), util::list(disconnected))
        }
    }
}

fn sorted_allocs(q: &VerifQueue) -> Vec<&hk::VerifAllocation> {
    let mut v: Vec<_> = q.allocations.iter().collect();
    v.sort_by_key(|a| aid(&a.id));
    v
}

fn snapshot_lines(s: &VerifSnapshot) -> Vec<String> {
    let mut out = vec![];
    for q in &s.queues {
        out.push(format!(
            "queue {} {} bl={} wpa={} mwc={}",
            q.id,
            if q.active { "A" } else { "P" },
            q.backlog,
            q.max_workers_per_alloc,
            opt(q.max_worker_count)
        ));
        out.push(format!(
            "lim {} cur={} last={} af={} sf={}",
            q.id,
            q.limiter.current_delay,
            q.limiter.last_submission_ms.map(|x| x.to_string()).unwrap_or_else(|| "-".into()),
            q.limiter.allocation_fails,
            q.limiter.submission_fails
        ));
        for a in sorted_allocs(q) {
            out.push(alloc_line(q.id, a));
        }
    }
    let mut a2q: Vec<(u64, u32)> = s.allocation_to_queue.iter().map(|(a, q)| (aid(a), *q)).collect();
    a2q.sort();
    out.push(format!("a2q {}", util::list(a2q.iter().map(|(a, q)| format!("{a}:{q}")))));
    out
}

fn rank(s: &VerifAllocState) -> u32 {
    match s {
        VerifAllocState::Queued { .. } => 0,
        VerifAllocState::Running { .. } => 1,
        _ => 2,
    }
}
fn is_active(s: &VerifAllocState) -> bool {
    rank(s) < 2
}
fn is_queued(s: &VerifAllocState) -> bool {
    rank(s) == 0
}
fn queue_of(s: &VerifSnapshot, q: u32) -> Option<&VerifQueue> {
    s.queues.iter().find(|x| x.id == q)
}
fn alloc_of<'a>(q: &'a VerifQueue, a: &str) -> Option<&'a hk::VerifAllocation> {
    q.allocations.iter().find(|x| x.id == a)
}
fn limits_reached(q: &VerifQueue) -> bool {
    q.limiter.allocation_fails >= q.limiter.max_allocation_fails || q.limiter.submission_fails >= q.limiter.max_submission_fails
}
fn elapsed(q: &VerifQueue, now: u64) -> bool {
    match q.limiter.last_submission_ms {
        None => true,
        Some(t) => now.saturating_sub(t) >= q.limiter.delays_ms[q.limiter.current_delay.min(q.limiter.delays_ms.len() - 1)],
    }
}
fn queued_count(q: &VerifQueue) -> u64 {
    q.allocations.iter().filter(|a| is_queued(&a.state)).count() as u64
}
fn active_workers(q: &VerifQueue) -> u64 {
    q.allocations.iter().filter(|a| is_active(&a.state)).map(|a| a.target_worker_count).sum()
}
fn has_space(q: &VerifQueue) -> bool {
    queued_count(q) < q.backlog as u64 && q.max_worker_count.map(|m| active_workers(q) < m as u64).unwrap_or(true)
}

/// Reference form of "there is demand and the limits leave room": the allocations the property allows to be
/// submitted for this demand (specification-level re-statement of `compute_submission_permit`; `None` where the
/// real code would panic on an adversarial answer).
fn ref_permit(q: &VerifQueue, d: Demand) -> Option<Vec<u64>> {
    let (sn0, mn0, mnwpa) = (d.0 as u64, d.1 as u64, d.2 as u64);
    let wpa = q.max_workers_per_alloc as u64;
    let mut rem: Option<u64> = q.max_worker_count.map(|m| (m as u64).saturating_sub(active_workers(q)));
    if rem == Some(0) {
        return Some(vec![]);
    }
    let targets: Vec<u64> = q.allocations.iter().filter(|a| is_queued(&a.state)).map(|a| a.target_worker_count).collect();
    let covering = targets.iter().filter(|t| mnwpa <= **t).count() as u64;
    let used_mn = mn0.min(covering);
    let mn = mn0 - used_mn;
    let sn = sn0.saturating_sub(targets.iter().sum::<u64>() - used_mn * mnwpa);
    if wpa == 0 {
        return None;
    }
    let mut cands: Vec<u64> = vec![];
    for _ in 0..mn.min(64) {
        cands.push(mnwpa);
    }
    for _ in 0..(sn / wpa).min(64) {
        cands.push(wpa);
    }
    if sn % wpa != 0 {
        cands.push(sn % wpa);
    }
    cands.truncate((q.backlog as u64).saturating_sub(targets.len() as u64) as usize);
    let mut res = vec![];
    for t in cands {
        if t > wpa {
            return None;
        }
        let n = rem.map(|r| t.min(r)).unwrap_or(t);
        if n == 0 {
            break;
        }
        if let Some(r) = rem.as_mut() {
            *r -= n;
        }
        res.push(n);
    }
    Some(res)
}

// ------------------------------------------------------------------------------------------------
// Monitors (decidable forms of the conclusions of c17_* / c18_*, evaluated on the real code)
// ------------------------------------------------------------------------------------------------

#[derive(Default, Clone)]
struct AllocShadow {
    started: u32,
    finished: u32,
    /// workers whose last event for this allocation since it left Queued is a connect
    conn: BTreeSet<u32>,
    /// distinct workers lost while Running
    lost: BTreeSet<u32>,
}

thread_local! {
    /// transition-class hit table (printed to stderr by `gen --cover`)
    static COVER: RefCell<BTreeMap<String, u64>> = const { RefCell::new(BTreeMap::new()) };
}

fn hit(class: String) {
    COVER.with(|c| *c.borrow_mut().entry(class).or_insert(0) += 1);
}

fn kind(s: &VerifAllocState) -> &'static str {
    match s {
        VerifAllocState::Queued { .. } => "Queued",
        VerifAllocState::Running { .. } => "Running",
        VerifAllocState::Finished { .. } => "Finished",
        VerifAllocState::FinishedUnexpectedly { .. } => "FinishedUnexpectedly",
    }
}

/// records which transition class an op exercised (pre-state class x input class)
fn cover(op: &Op, pre: &VerifSnapshot, post: &VerifSnapshot, env: &Env, resp_ok: bool, tick_res: Option<Option<bool>>) {
    let state_of = |a: &str| -> &'static str {
        match pre.allocation_to_queue.iter().find(|(x, _)| x == a) {
            None => "unknown-allocation",
            Some((_, q)) => queue_of(pre, *q).and_then(|q| alloc_of(q, a)).map(|x| kind(&x.state)).unwrap_or("dangling"),
        }
    };
    match op {
        Op::WConn { a, .. } => hit(format!("worker-connect x {}", state_of(&a.to_string()))),
        Op::WLost { a, reason, life, .. } => {
            let crashed = matches!(reason, LostWorkerReason::ConnectionLost | LostWorkerReason::HeartbeatLost) && *life <= 60_000;
            hit(format!("worker-lost({}) x {}", if crashed { "crash" } else { "normal" }, state_of(&a.to_string())));
            let a_str = a.to_string();
            if let Some((_, q)) = pre.allocation_to_queue.iter().find(|(x, _)| *x == a_str) {
                let before = queue_of(pre, *q).and_then(|q| alloc_of(q, &a_str)).map(|x| kind(&x.state));
                let after = queue_of(post, *q).and_then(|q| alloc_of(q, &a_str)).map(|x| kind(&x.state));
                if before == Some("Running") && after == Some("Finished") {
                    hit("worker-lost: Running -> Finished (target reached)".to_string());
                }
            }
        }
        Op::Refresh => {
            if env.status_log.is_empty() {
                hit("refresh x nothing-to-ask".to_string());
            }
            for (q, ids, r) in &env.status_log {
                for (i, id) in ids.iter().enumerate() {
                    let st = queue_of(pre, *q).and_then(|q| alloc_of(q, id)).map(|x| kind(&x.state)).unwrap_or("?");
                    match r {
                        None => hit(format!("status call-error x {st}")),
                        Some(v) => hit(format!("status {} x {st}", status_letter(v[i]))),
                    }
                    let after = queue_of(post, *q).and_then(|q| alloc_of(q, id)).map(|x| kind(&x.state)).unwrap_or("?");
                    if matches!(r, None) || matches!(r, Some(v) if v[i] == VerifStatus::Error) {
                        if after == "FinishedUnexpectedly" {
                            hit(format!("status-error threshold reached x {st}"));
                        }
                    }
                }
            }
        }
        Op::Tick { now } => {
            match tick_res {
                Some(None) => hit("tick: skipped (no active queue)".to_string()),
                Some(Some(false)) => hit("tick: query error".to_string()),
                _ => {}
            }
            if env.query_log.is_none() && tick_res == Some(Some(true)) {
                hit("tick: no query (all paused by limits / no space)".to_string());
            }
            if let Some((_, Some(r))) = &env.query_log {
                if r.single_node_workers_per_query.len() != env.expected_queries.len() {
                    hit("tick: answer of wrong length".to_string());
                }
                if !r.multi_node_allocations.is_empty() {
                    hit("tick: multi-node answer".to_string());
                }
            }
            for q in &pre.queues {
                let calls = env.submit_log.iter().filter(|(x, _, _)| *x == q.id).count();
                let cls = if !q.active { "paused" }
                    else if limits_reached(q) { "auto-paused by this tick" }
                    else if calls > 0 { "submitted" }
                    else if !has_space(q) { "no space" }
                    else if !elapsed(q, *now) { "inside back-off" }
                    else { "no demand / no permit / no answer" };
                hit(format!("tick x queue {cls}"));
                if calls > 1 { hit("tick x queue several submissions".to_string()); }
                if let (Some(pq), true) = (queue_of(post, q.id), q.active) {
                    if !pq.active { hit("tick: queue paused at end of tick".to_string()); }
                }
            }
            for (_, _, r) in &env.submit_log {
                hit(format!("submit result {}", match r { VerifSubmit::Ok(_) => "ok", VerifSubmit::Fail => "rejected", VerifSubmit::Err => "dir-error" }));
            }
        }
        Op::RmQ { q, force } => {
            let cls = match queue_of(pre, *q) {
                None => "unknown queue",
                Some(pq) if pq.allocations.iter().any(|a| matches!(a.state, VerifAllocState::Running { .. })) => "has running",
                Some(pq) if pq.allocations.iter().any(|a| is_active(&a.state)) => "has queued only",
                Some(_) => "no active allocation",
            };
            hit(format!("remove-queue(force={}) x {cls} -> {}", *force as u8, if resp_ok { "removed" } else { "refused" }));
        }
        Op::Pause { q } => hit(format!("pause x {}", queue_of(pre, *q).map(|x| if x.active { "active" } else { "paused" }).unwrap_or("unknown queue"))),
        Op::Resume { q } => hit(format!("resume x {}", queue_of(pre, *q).map(|x| if x.active { "active" } else if limits_reached(x) { "paused by limits" } else { "paused by user" }).unwrap_or("unknown queue"))),
        Op::AddQ { qid, limiter, .. } => hit(format!("add-queue({}, {})", if qid.is_some() { "explicit id" } else { "counter id" }, if limiter.is_some() { "test limiter" } else { "production limiter" })),
        Op::Job => hit("job-submitted".to_string()),
    }
}

#[derive(Default)]
struct Monitors {
    allocs: BTreeMap<(u32, String), AllocShadow>,
    /// queues resumed by the user that have not submitted since, not been paused by the user and not seen a new failure
    armed: BTreeSet<u32>,
    /// per queue, from the scripted handler answers alone (independent of the limiter state the real code keeps):
    /// (consecutive failed submission attempts since the last success / resume, lower bound on the back-off level,
    /// time of the last attempt)
    shadow: BTreeMap<u32, (u64, usize, Option<u64>)>,
    /// per queue: (backlog, max workers per allocation, max worker count) as the CLIENT configured them in the AddQueue
    /// request (the limits C17 is about; the snapshot reads them through the code's own accessors)
    configured: BTreeMap<u32, (u32, u32, Option<u32>)>,
    fails: Vec<(String, String, String)>,
}

impl Monitors {
    fn fail(&mut self, clause: &str, sig: &str, detail: String) {
        self.fails.push((clause.to_string(), sig.to_string(), detail));
    }

    #[allow(clippy::too_many_arguments)]
    fn check(&mut self, op: &Op, pre: &VerifSnapshot, post: &VerifSnapshot, events: &[VerifEvent], env: &Env,
             resp_ok: bool, tick_res: Option<Option<bool>>) {
        // a queue that did not exist before this op starts with a fresh history
        self.shadow.retain(|q, _| queue_of(pre, *q).is_some());
        self.configured.retain(|q, _| queue_of(pre, *q).is_some());
        if let Op::AddQ { bl, wpa, mwc, .. } = op {
            for q in &post.queues {
                if queue_of(pre, q.id).is_none() {
                    self.configured.insert(q.id, (*bl, *wpa, *mwc));
                }
            }
        }
        // ---------------- C17: limits (state invariant), against the limits as configured by the client
        for q in &post.queues {
            let (cbl, cwpa, cmwc) = self.configured.get(&q.id).copied().unwrap_or((q.backlog, q.max_workers_per_alloc, q.max_worker_count));
            if q.backlog != cbl || q.max_workers_per_alloc != cwpa || q.max_worker_count != cmwc {
                self.fail("c17.max_workers", "limits-differ-from-configuration", format!(
                    "queue {}: the queue works with backlog={} workers-per-alloc={} max-worker-count={:?}, configured were {} {} {:?}",
                    q.id, q.backlog, q.max_workers_per_alloc, q.max_worker_count, cbl, cwpa, cmwc));
            }
            if queued_count(q) > cbl as u64 {
                self.fail("c17.backlog", "queued-exceeds-backlog", format!("queue {} queued={} backlog={}", q.id, queued_count(q), cbl));
            }
            if let Some(m) = cmwc {
                if active_workers(q) > m as u64 {
                    self.fail("c17.max_workers", "active-exceeds-max-worker-count", format!("queue {} active_workers={} max={}", q.id, active_workers(q), m));
                }
            }
            for a in &q.allocations {
                if a.target_worker_count < 1 || a.target_worker_count > q.max_workers_per_alloc as u64 {
                    self.fail("c17.target", "target-out-of-range", format!("queue {} alloc {} target={} wpa={}", q.id, a.id, a.target_worker_count, q.max_workers_per_alloc));
                }
            }
            // paused -> active only through a resume request
            if let Some(pq) = queue_of(pre, q.id) {
                if !pq.active && q.active && !matches!(op, Op::Resume { q: r } if *r == q.id) {
                    self.fail("c17.silent", "unpaused-without-resume", format!("queue {}", q.id));
                }
            }
        }
        // ---------------- C17: submit calls
        if !matches!(op, Op::Tick { .. }) && !env.submit_log.is_empty() {
            self.fail("c17.silent", "submit-outside-tick", format!("{:?}", env.submit_log));
        }
        if let Op::Tick { now } = op {
            // which queues were asked, and the answer each got (by position, as perform_submits zips them)
            let asked: Vec<u32> = pre.queue_order.iter().copied()
                .filter(|id| queue_of(pre, *id).map(|q| q.active && !limits_reached(q)).unwrap_or(false)).collect();
            let mut answers: BTreeMap<u32, Demand> = BTreeMap::new();
            if let Some((_, Some(r))) = &env.query_log {
                for (i, sn) in r.single_node_workers_per_query.iter().enumerate() {
                    if let Some(q) = asked.get(i) {
                        answers.insert(*q, (*sn, 0, 0));
                    }
                }
                for (wt, allocs, wpa) in &r.multi_node_allocations {
                    if *wt < r.single_node_workers_per_query.len() {
                        if let Some(q) = asked.get(*wt) {
                            if let Some(d) = answers.get_mut(q) {
                                d.1 = *allocs;
                                d.2 = *wpa;
                            }
                        }
                    }
                }
            }
            let mut first_call: BTreeSet<u32> = BTreeSet::new();
            let mut per_queue: BTreeMap<u32, Vec<u64>> = BTreeMap::new();
            for (qid, n, _) in &env.submit_log {
                per_queue.entry(*qid).or_default().push(*n);
                match queue_of(pre, *qid) {
                    None => self.fail("c17.silent", "submit-for-unknown-queue", format!("queue {qid}")),
                    Some(q) => {
                        if *n < 1 || *n > q.max_workers_per_alloc as u64 {
                            self.fail("c17.target", "submit-size-out-of-range", format!("queue {qid} workers={n} wpa={}", q.max_workers_per_alloc));
                        }
                        if first_call.insert(*qid) {
                            if !q.active {
                                self.fail("c17.silent", "submit-while-paused", format!("queue {qid}"));
                            }
                            if limits_reached(q) {
                                self.fail("c17.silent", "submit-after-failure-limit", format!("queue {qid} af={} sf={}", q.limiter.allocation_fails, q.limiter.submission_fails));
                            }
                            if !elapsed(q, *now) {
                                self.fail("c17.silent", "submit-before-backoff-elapsed", format!("queue {qid} now={now} last={:?} cur={}", q.limiter.last_submission_ms, q.limiter.current_delay));
                            }
                            if !has_space(q) {
                                self.fail("c17.silent", "submit-without-space", format!("queue {qid}"));
                            }
                            match answers.get(qid) {
                                Some(d) if d.0 > 0 || d.1 > 0 => {}
                                _ => self.fail("c17.silent", "submit-without-demand", format!("queue {qid} answer={:?}", answers.get(qid))),
                            }
                        }
                    }
                }
            }
            // the same judged from the scripted answers alone: consecutive failed attempts of EITHER kind (rejected by
            // the batch system, or the allocation directory could not be created) stop submissions and raise the back-off
            let mut seen: BTreeSet<u32> = BTreeSet::new();
            for (qid, _, r) in &env.submit_log {
                let Some(q) = queue_of(pre, *qid) else { continue };
                let sh = self.shadow.entry(*qid).or_insert((0, 0, None));
                let (sf, lb, last) = *sh;
                if seen.insert(*qid) {
                    if sf >= q.limiter.max_submission_fails {
                        self.fails.push(("c17.silent".into(), "submit-after-consecutive-submission-failures".into(),
                            format!("queue {qid}: {sf} consecutive failed submission attempts (limit {}), yet another attempt at {now}", q.limiter.max_submission_fails)));
                    }
                    let need = q.limiter.delays_ms[lb.min(q.limiter.delays_ms.len() - 1)..].iter().min().copied().unwrap_or(0);
                    if let Some(t) = last {
                        if now.saturating_sub(t) < need {
                            self.fails.push(("c17.silent".into(), "submit-before-backoff-elapsed".into(),
                                format!("queue {qid}: attempt at {now}, previous attempt at {t}, {sf} failure(s) in a row since the last success require a delay of at least {need} ms")));
                        }
                    }
                }
                let sh = self.shadow.get_mut(qid).unwrap();
                sh.2 = Some(*now);
                match r {
                    VerifSubmit::Ok(_) => { sh.0 = 0; sh.1 = 0; }
                    VerifSubmit::Fail | VerifSubmit::Err => { sh.0 += 1; sh.1 += 1; }
                }
            }
            if tick_res.is_some() {
                for q in &post.queues {
                    let sf = self.shadow.get(&q.id).map(|s| s.0).unwrap_or(0);
                    if sf >= q.limiter.max_submission_fails && q.active {
                        self.fails.push(("c17.pause_limit".into(), "active-after-consecutive-submission-failures".into(),
                            format!("queue {}: {sf} consecutive failed submission attempts (limit {}) and the queue is still active after the tick", q.id, q.limiter.max_submission_fails)));
                    }
                }
            }
            // the calls of one tick stay inside what the limits allow for the answered demand
            for (qid, calls) in &per_queue {
                if let (Some(q), Some(d)) = (queue_of(pre, *qid), answers.get(qid)) {
                    if let Some(allowed) = ref_permit(q, *d) {
                        if calls.len() > allowed.len() || calls.iter().zip(&allowed).any(|(a, b)| a != b) {
                            self.fail("c17.silent", "submit-beyond-permit", format!("queue {qid} calls={calls:?} allowed={allowed:?}"));
                        }
                    }
                }
            }
            // paused after the failure limits at the end of every tick
            if tick_res.is_some() {
                for q in &post.queues {
                    if limits_reached(q) && q.active {
                        self.fail("c17.pause_limit", "active-after-failure-limit", format!("queue {} af={} sf={}", q.id, q.limiter.allocation_fails, q.limiter.submission_fails));
                    }
                }
            }
            // resume liveness
            if !env.query_perturbed && !env.replay_unknown_demand() && !env.script_underflow {
                for qid in self.armed.clone() {
                    let Some(q) = queue_of(pre, qid) else { continue };
                    let d = env.demand.get(&qid).copied().unwrap_or((0, 0, 0));
                    let demand = d.0 > 0 || d.1 > 0;
                    let room = ref_permit(q, d).map(|p| !p.is_empty()).unwrap_or(false);
                    if demand && room && elapsed(q, *now) && !per_queue.contains_key(&qid) {
                        let sig = if limits_reached(q) { "paused-by-limits-counters-kept" } else { "no-submit" };
                        self.fail("c17.resume_live", sig, format!(
                            "queue {qid} was resumed, this tick has demand {d:?}, room and elapsed back-off, but nothing was submitted (af={}/{} sf={}/{} state_before={} state_after={})",
                            q.limiter.allocation_fails, q.limiter.max_allocation_fails, q.limiter.submission_fails, q.limiter.max_submission_fails,
                            if q.active { "active" } else { "paused" },
                            queue_of(post, qid).map(|x| if x.active { "active" } else { "paused" }).unwrap_or("gone")));
                        self.armed.remove(&qid);
                    }
                }
            }
            for qid in per_queue.keys() {
                self.armed.remove(qid);
            }
        }
        // an allocation that ends may reset the back-off level (`on_allocation_success`): drop the lower bound
        for q in &post.queues {
            if let Some(pq) = queue_of(pre, q.id) {
                let fin = |x: &VerifQueue| x.allocations.iter().filter(|a| !is_queued(&a.state) && !is_active(&a.state)).count();
                if fin(q) != fin(pq) {
                    if let Some(sh) = self.shadow.get_mut(&q.id) { sh.1 = 0; }
                }
            }
        }
        // arming / disarming
        match op {
            Op::Resume { q } if resp_ok => {
                self.armed.insert(*q);
                if let Some(sh) = self.shadow.get_mut(q) { sh.0 = 0; }
            }
            Op::Pause { q } => {
                self.armed.remove(q);
            }
            Op::RmQ { q, .. } if resp_ok => {
                self.armed.remove(q);
            }
            _ => {}
        }
        for q in &post.queues {
            if let Some(pq) = queue_of(pre, q.id) {
                if q.limiter.allocation_fails > pq.limiter.allocation_fails || q.limiter.submission_fails > pq.limiter.submission_fails {
                    self.armed.remove(&q.id);
                }
            }
        }

        // ---------------- C18
        let removed_queue = match op {
            Op::RmQ { q, .. } if resp_ok => Some(*q),
            _ => None,
        };
        // worker-event shadows (before looking at the post state)
        let mut touched: Option<(u32, String)> = None;
        let mut unknown = false;
        match op {
            Op::WConn { a, .. } | Op::WLost { a, .. } => {
                let a_str = a.to_string();
                match pre.allocation_to_queue.iter().find(|(x, _)| *x == a_str) {
                    None => unknown = true,
                    Some((_, qid)) => touched = Some((*qid, a_str)),
                }
            }
            _ => {}
        }
        if unknown {
            if snapshot_lines(pre) != snapshot_lines(post) || !events.is_empty() {
                self.fail("c18.unknown", "unknown-allocation-changed-state", format!("{op:?} events={events:?}"));
            }
        }
        if let Some((qid, a_str)) = &touched {
            if let Some(pa) = queue_of(pre, *qid).and_then(|q| alloc_of(q, a_str)) {
                let sh = self.allocs.entry((*qid, a_str.clone())).or_default();
                match (op, &pa.state) {
                    (Op::WConn { w, .. }, VerifAllocState::Queued { .. }) => {
                        sh.conn = BTreeSet::from([*w]);
                    }
                    (Op::WConn { w, .. }, VerifAllocState::Running { .. }) => {
                        sh.conn.insert(*w);
                    }
                    (Op::WLost { w, .. }, VerifAllocState::Running { .. }) => {
                        sh.conn.remove(w);
                        sh.lost.insert(*w);
                        let reached = sh.lost.len() as u64 == pa.target_worker_count;
                        let fin = queue_of(post, *qid).and_then(|q| alloc_of(q, a_str)).map(|x| matches!(x.state, VerifAllocState::Finished { .. })).unwrap_or(false);
                        if reached != fin {
                            let detail = format!("queue {qid} alloc {a_str}: distinct lost while running={} target={} finished-normally={fin}", sh.lost.len(), pa.target_worker_count);
                            self.fail("c18.finish", if reached { "not-finished-at-target" } else { "finished-before-target" }, detail);
                        }
                    }
                    _ => {}
                }
            }
        }
        // events
        for e in events {
            match e {
                VerifEvent::AllocationStarted(q, a) => {
                    let sh = self.allocs.entry((*q, a.clone())).or_default();
                    sh.started += 1;
                    let (started, finished) = (sh.started, sh.finished);
                    if started > 1 {
                        self.fail("c18.announce", "started-twice", format!("queue {q} alloc {a}"));
                    }
                    if finished > 0 {
                        self.fail("c18.announce", "started-after-finished", format!("queue {q} alloc {a}"));
                    }
                }
                VerifEvent::AllocationFinished(q, a) => {
                    let sh = self.allocs.entry((*q, a.clone())).or_default();
                    sh.finished += 1;
                    let finished = sh.finished;
                    if finished > 1 {
                        self.fail("c18.announce", "finished-twice", format!("queue {q} alloc {a}"));
                    }
                }
                VerifEvent::Other => self.fail("c18.announce", "foreign-event", format!("{op:?}")),
                _ => {}
            }
        }
        // per allocation: rank, absorbing, announce <-> state, connected set
        for pq in &pre.queues {
            if Some(pq.id) == removed_queue {
                continue;
            }
            let Some(q) = queue_of(post, pq.id) else {
                self.fail("c18.monotone", "queue-vanished", format!("queue {}", pq.id));
                continue;
            };
            for pa in &pq.allocations {
                match alloc_of(q, &pa.id) {
                    None => self.fail("c18.monotone", "allocation-vanished", format!("queue {} alloc {}", q.id, pa.id)),
                    Some(a) => {
                        if rank(&a.state) < rank(&pa.state) {
                            self.fail("c18.monotone", "rank-decreased", format!("queue {} alloc {}: {} -> {}", q.id, a.id, alloc_line(q.id, pa), alloc_line(q.id, a)));
                        }
                        if rank(&pa.state) == 2 && alloc_line(q.id, pa) != alloc_line(q.id, a) {
                            self.fail("c18.monotone", "finished-not-absorbing", format!("queue {} alloc {}: {} -> {}", q.id, a.id, alloc_line(q.id, pa), alloc_line(q.id, a)));
                        }
                        if !matches!(pa.state, VerifAllocState::Finished { .. }) && matches!(a.state, VerifAllocState::Finished { .. })
                            && !matches!(op, Op::WLost { .. })
                        {
                            self.fail("c18.finish", "normal-finish-without-worker-loss", format!("queue {} alloc {} op={op:?}", q.id, a.id));
                        }
                    }
                }
            }
        }
        for q in &post.queues {
            for a in &q.allocations {
                let sh = self.allocs.entry((q.id, a.id.clone())).or_default().clone();
                let fin_state = rank(&a.state) == 2;
                if fin_state != (sh.finished == 1) {
                    self.fail("c18.announce", if fin_state { "finished-without-event" } else { "event-without-finished-state" },
                              format!("queue {} alloc {} finished-events={} state={}", q.id, a.id, sh.finished, alloc_line(q.id, a)));
                }
                if let VerifAllocState::Running { connected, .. } = &a.state {
                    let c: Vec<u32> = sh.conn.iter().copied().collect();
                    if &c != connected {
                        self.fail("c18.workers", "connected-set-wrong", format!("queue {} alloc {} connected={connected:?} expected={c:?}", q.id, a.id));
                    }
                }
            }
        }
        // remove_queue
        if let Op::RmQ { q, .. } = op {
            let mut calls: Vec<u64> = env.rm_log.iter().map(|(_, a)| aid(a)).collect();
            calls.sort();
            if resp_ok {
                let pq = queue_of(pre, *q);
                let mut expected: Vec<u64> = pq.map(|x| x.allocations.iter().filter(|a| is_active(&a.state)).map(|a| aid(&a.id)).collect()).unwrap_or_default();
                expected.sort();
                if calls != expected || env.rm_log.iter().any(|(x, _)| x != q) {
                    self.fail("c18.remove_queue", "remove-calls-not-once-per-active-allocation", format!("queue {q} calls={calls:?} expected={expected:?}"));
                }
                if queue_of(post, *q).is_some() {
                    self.fail("c18.remove_queue", "queue-still-present", format!("queue {q}"));
                }
                if let Some(pq) = pq {
                    for a in &pq.allocations {
                        if post.allocation_to_queue.iter().any(|(x, _)| *x == a.id) {
                            self.fail("c18.remove_queue", "index-entry-left", format!("queue {q} alloc {}", a.id));
                        }
                    }
                }
                self.allocs.retain(|(x, _), _| x != q);
                if !events.contains(&VerifEvent::QueueRemoved(*q)) {
                    self.fail("c18.remove_queue", "no-removed-event", format!("queue {q}"));
                }
            } else if !calls.is_empty() || snapshot_lines(pre) != snapshot_lines(post) {
                self.fail("c18.remove_queue", "refused-removal-had-effects", format!("queue {q} calls={calls:?}"));
            }
        } else if !env.rm_log.is_empty() {
            self.fail("c18.remove_queue", "remove-call-outside-queue-removal", format!("{:?}", env.rm_log));
        }
    }
}

impl Env {
    /// in replay mode the demand of a tick is only known when the trace carries it
    fn replay_unknown_demand(&self) -> bool {
        self.replay && self.demand.is_empty()
    }
}

// ------------------------------------------------------------------------------------------------
// Case execution
// ------------------------------------------------------------------------------------------------

/// Trace writer that can be muted (the probe runs ops without printing them).
struct Sink<'a> {
    tr: Option<&'a mut Trace>,
}

impl Sink<'_> {
    fn op(&mut self, s: &str) {
        if let Some(t) = self.tr.as_mut() { t.op(s) }
    }
    fn out(&mut self, s: &str) {
        if let Some(t) = self.tr.as_mut() { t.out(s) }
    }
    fn mon_fail(&mut self, c: &str, s: &str, d: &str) {
        if let Some(t) = self.tr.as_mut() { t.mon_fail(c, s, d) }
    }
    fn case(&mut self, idx: u64, subseed: u64, params: &str) {
        if let Some(t) = self.tr.as_mut() { t.case(idx, subseed, params) }
    }
    fn end(&mut self) {
        if let Some(t) = self.tr.as_mut() { t.end() }
    }
}

struct Case {
    rt: tokio::runtime::Runtime,
    va: Option<VerifAutoAlloc>,
    env: Rc<RefCell<Env>>,
    mon: Monitors,
    dead: bool,
}

fn panic_site(msg: &str) -> &'static str {
    if msg.contains("Invalid queue index") {
        "query-index"
    } else if msg.contains("target_worker_count <= info.max_workers_per_alloc") {
        "permit-assert"
    } else if msg.contains("remainder with a divisor of zero") {
        "rem-zero"
    } else if msg.contains("self.allocations") {
        "dup-alloc"
    } else if msg.contains("allocation_to_queue.remove") {
        "a2q-missing"
    } else if msg.contains("self.queues.insert") {
        "dup-queue"
    } else {
        "other"
    }
}

impl Case {
    fn new(seed: u64, replay: bool, profile: Profile, nextq: u32) -> Case {
        let env = Rc::new(RefCell::new(Env::new(seed, replay, profile)));
        let rt = tokio::runtime::Builder::new_current_thread().enable_all().build().unwrap();
        let va = VerifAutoAlloc::new(nextq, env.clone());
        Case { rt, va: Some(va), env, mon: Monitors::default(), dead: false }
    }

    fn snapshot(&self) -> VerifSnapshot {
        self.va.as_ref().unwrap().snapshot()
    }

    /// Applies one op to the real code and prints `op`, `out`, `mon` lines.
    fn apply(&mut self, tr: &mut Sink, op: &Op) {
        let pre = self.snapshot();
        self.env.borrow_mut().clear_logs();
        if let Op::Tick { now } = op {
            let mut env = self.env.borrow_mut();
            env.now = *now;
            env.expected_queries = pre.queue_order.iter().copied()
                .filter(|id| queue_of(&pre, *id).map(|q| q.active && !limits_reached(q)).unwrap_or(false)).collect();
        }
        let mut va = self.va.take().unwrap();
        let rt = &self.rt;
        // (outs before the snapshot, response-ok flag, tick result)
        let mut heads: Vec<String> = vec![];
        let mut resp_ok = false;
        let mut tick_res: Option<Option<bool>> = None;
        let mut created: Option<u32> = None;
        let result = util::catch(|| match op {
            Op::AddQ { bl, wpa, mwc, limiter, qid, pbs } => {
                let (sched, id) = rt.block_on(va.add_queue(VerifQueueParams {
                    pbs: *pbs,
                    backlog: *bl,
                    max_workers_per_alloc: *wpa,
                    max_worker_count: *mwc,
                    limiter: limiter.clone(),
                    queue_id: *qid,
                }));
                created = id;
                resp_ok = id.is_some();
                heads.push(match id {
                    Some(id) => format!("resp ok {id}"),
                    None => "resp err".to_string(),
                });
                heads.push(format!("sched {}", sched as u8));
            }
            Op::WConn { w, a } => {
                let sched = rt.block_on(va.worker_connected(*w, &a.to_string()));
                heads.push(format!("sched {}", sched as u8));
            }
            Op::WLost { w, a, reason, life } => {
                let sched = rt.block_on(va.worker_lost(*w, &a.to_string(), *reason, Duration::from_millis(*life)));
                heads.push(format!("sched {}", sched as u8));
            }
            Op::Job => {
                let sched = rt.block_on(va.job_submitted(1));
                heads.push(format!("sched {}", sched as u8));
            }
            Op::RmQ { q, force } => {
                let (sched, r) = rt.block_on(va.remove_queue(*q, *force));
                resp_ok = r == VerifRemoveResult::Ok;
                heads.push(format!("resp {}", match r {
                    VerifRemoveResult::Ok => "ok",
                    VerifRemoveResult::NotFound => "notfound",
                    VerifRemoveResult::HasRunning => "running",
                    VerifRemoveResult::OtherError => "err",
                }));
                heads.push(format!("sched {}", sched as u8));
            }
            Op::Pause { q } => {
                let (sched, found) = rt.block_on(va.pause_queue(*q));
                resp_ok = found;
                heads.push(format!("resp {}", if found { "ok" } else { "notfound" }));
                heads.push(format!("sched {}", sched as u8));
            }
            Op::Resume { q } => {
                let (sched, found) = rt.block_on(va.resume_queue(*q));
                resp_ok = found;
                heads.push(format!("resp {}", if found { "ok" } else { "notfound" }));
                heads.push(format!("sched {}", sched as u8));
            }
            Op::Tick { .. } => {
                tick_res = Some(rt.block_on(va.scheduling_tick()));
            }
            Op::Refresh => {
                let ran = rt.block_on(va.periodic_update());
                heads.push(format!("ran {}", ran as u8));
            }
        });
        let events = va.drain_events();
        // ---- op line with the resolved choices
        let env = self.env.borrow();
        let op_line = match op {
            Op::AddQ { bl, wpa, mwc, qid, .. } => {
                // limiter constants as the implementation has them now
                let lim = created.and_then(|id| va.snapshot().queues.into_iter().find(|q| q.id == id)).map(|q| q.limiter);
                let (delays, msf, maf) = match (&lim, op) {
                    (Some(l), _) => (l.delays_ms.clone(), l.max_submission_fails, l.max_allocation_fails),
                    (None, Op::AddQ { limiter: Some((d, s, a)), .. }) => (d.clone(), *s, *a),
                    _ => {
                        let c = hk::constants();
                        (c.submission_delays_ms, c.max_submission_fails, c.max_allocation_fails)
                    }
                };
                format!("addq bl={bl} wpa={wpa} mwc={} delays={} msf={msf} maf={maf} qid={}", opt(*mwc), util::list(delays), opt(*qid))
            }
            Op::WConn { w, a } => format!("wconn w={w} a={a}"),
            Op::WLost { w, a, reason, life } => format!("wlost w={w} a={a} r={} life={life}", reason_str(*reason)),
            Op::Job => "job".to_string(),
            Op::RmQ { q, force } => format!("rmq q={q} force={}", *force as u8),
            Op::Pause { q } => format!("pause q={q}"),
            Op::Resume { q } => format!("resume q={q}"),
            Op::Tick { now } => format!(
                "tick now={now} order={} resp={} res={} dem={} pert={}",
                util::list(pre.queue_order.iter()),
                show_query(&env.query_log),
                util::list(env.submit_log.iter().map(|(_, _, r)| show_subres(r))),
                util::list(env.demand.iter().map(|(q, d)| format!("{q}:{}/{}/{}", d.0, d.1, d.2))),
                env.query_perturbed as u8
            ),
            Op::Refresh => {
                let reps: Vec<String> = env.status_log.iter().map(|(q, ids, r)| match r {
                    None => format!("{q}@!{}", util::list(ids.iter())),
                    Some(sts) => format!("{q}@{}", util::list(ids.iter().zip(sts).map(|(i, s)| format!("{i}:{}", status_letter(*s))))),
                }).collect();
                format!("refresh rep={}", if reps.is_empty() { "-".to_string() } else { reps.join(";") })
            }
        };
        tr.op(&op_line);
        // ---- outs in the canonical order of the model: rm (sorted), then in emission order
        let mut rms: Vec<(u32, u64)> = env.rm_log.iter().map(|(q, a)| (*q, aid(a))).collect();
        rms.sort_by_key(|x| x.1);
        for (q, a) in rms {
            tr.out(&format!("rm {q} {a}"));
        }
        if matches!(op, Op::Tick { .. }) {
            if let Some((n, _)) = &env.query_log {
                tr.out(&format!("query {n}"));
            }
            // submit calls and AllocationQueued events interleave: call, then (on success) the event
            let mut evs = events.iter();
            for (q, n, r) in &env.submit_log {
                tr.out(&format!("submit {q} {n}"));
                if matches!(r, VerifSubmit::Ok(_)) {
                    if let Some(e) = evs.next() {
                        tr.out(&event_line(e));
                    }
                }
            }
            for e in evs {
                tr.out(&event_line(e));
            }
            if env.script_underflow {
                tr.out("!bad-op script-underflow");
            }
            if env.replay && !env.script_results.is_empty() && result.is_ok() {
                tr.out("!bad-op unused-submit-results");
            }
        } else {
            // events first (queue created / started / finished), then response lines, as the model orders them
            for e in &events {
                tr.out(&event_line(e));
            }
        }
        match &result {
            Err(msg) => {
                hit(format!("panic {}", panic_site(msg)));
                tr.out(&format!("!panic {}", panic_site(msg)));
                drop(env);
                self.dead = true;
                // the state may be inconsistent after a panic: the case ends here
                self.va = Some(va);
                return;
            }
            Ok(()) => {}
        }
        if let Some(r) = tick_res {
            tr.out(&format!("tickres {}", match r {
                None => "skipped",
                Some(true) => "ok",
                Some(false) => "err",
            }));
        }
        for h in &heads {
            tr.out(h);
        }
        let post = va.snapshot();
        for l in snapshot_lines(&post) {
            tr.out(&l);
        }
        cover(op, &pre, &post, &env, resp_ok, tick_res);
        self.mon.check(op, &pre, &post, &events, &env, resp_ok, tick_res);
        for (c, s, d) in self.mon.fails.drain(..) {
            tr.mon_fail(&c, &s, &d);
        }
        drop(env);
        self.va = Some(va);
    }
}

fn event_line(e: &VerifEvent) -> String {
    match e {
        VerifEvent::QueueCreated(q) => format!("ev qcreated {q}"),
        VerifEvent::QueueRemoved(q) => format!("ev qremoved {q}"),
        VerifEvent::AllocationQueued { queue_id, allocation_id, worker_count } => format!("ev queued {queue_id} {allocation_id} {worker_count}"),
        VerifEvent::AllocationStarted(q, a) => format!("ev started {q} {a}"),
        VerifEvent::AllocationFinished(q, a) => format!("ev finished {q} {a}"),
        VerifEvent::Other => "ev other".to_string(),
    }
}

// ------------------------------------------------------------------------------------------------
// Probing the behaviour of `resume` (which limiter fields it resets) on the running implementation
// ------------------------------------------------------------------------------------------------

fn probe_resume_mask() -> u64 {
    let profile = Profile { name: "probe", ..Default::default() };
    let mut c = Case::new(0, true, profile, 1);
    let mut sink = Sink { tr: None };
    c.apply(&mut sink, &Op::AddQ { bl: 2, wpa: 1, mwc: None, limiter: Some((vec![0, 1000, 5000], 5, 5)), qid: None, pbs: false });
    // one successful submission, then it fails externally, then a failed submission
    {
        let mut env = c.env.borrow_mut();
        env.script_query = Some(Some(VerifQueryResponse { single_node_workers_per_query: vec![1], multi_node_allocations: vec![] }));
        env.script_results = VecDeque::from([VerifSubmit::Ok("1".into())]);
    }
    c.apply(&mut sink, &Op::Tick { now: 0 });
    c.env.borrow_mut().script_reports = BTreeMap::from([(1, ReportSpec::Statuses(BTreeMap::from([(1, VerifStatus::Failed)])))]);
    c.apply(&mut sink, &Op::Refresh);
    {
        let mut env = c.env.borrow_mut();
        env.script_query = Some(Some(VerifQueryResponse { single_node_workers_per_query: vec![1], multi_node_allocations: vec![] }));
        env.script_results = VecDeque::from([VerifSubmit::Fail]);
    }
    c.apply(&mut sink, &Op::Tick { now: 100_000 });
    c.apply(&mut sink, &Op::Pause { q: 1 });
    let before = c.snapshot().queues[0].limiter.clone();
    c.apply(&mut sink, &Op::Resume { q: 1 });
    let after = c.snapshot().queues[0].limiter.clone();
    assert!(before.allocation_fails > 0 && before.submission_fails > 0 && before.current_delay > 0 && before.last_submission_ms.is_some(),
            "probe did not reach the intended limiter state: {before:?}");
    let mut mask = 0;
    if after.allocation_fails == 0 { mask |= 1; }
    if after.submission_fails == 0 { mask |= 2; }
    if after.current_delay == 0 { mask |= 4; }
    if after.last_submission_ms.is_none() { mask |= 8; }
    mask
}

// ------------------------------------------------------------------------------------------------
// Generator
// ------------------------------------------------------------------------------------------------

const PROFILES: [Profile; 6] = [
    Profile { name: "normal", p_fail: 15, p_dup: 0, status_w: [40, 25, 10, 10, 10, 5], p_callerr: 4, p_pert: 0, p_mn: 15 },
    Profile { name: "failing", p_fail: 65, p_dup: 0, status_w: [25, 10, 5, 45, 10, 5], p_callerr: 4, p_pert: 0, p_mn: 10 },
    Profile { name: "errors", p_fail: 10, p_dup: 0, status_w: [6, 6, 1, 1, 84, 2], p_callerr: 30, p_pert: 0, p_mn: 10 },
    Profile { name: "workers", p_fail: 5, p_dup: 0, status_w: [45, 40, 5, 5, 3, 2], p_callerr: 2, p_pert: 0, p_mn: 25 },
    Profile { name: "adversarial", p_fail: 20, p_dup: 12, status_w: [25, 20, 15, 15, 15, 10], p_callerr: 8, p_pert: 25, p_mn: 30 },
    Profile { name: "resume", p_fail: 80, p_dup: 0, status_w: [20, 10, 5, 55, 5, 5], p_callerr: 2, p_pert: 0, p_mn: 5 },
];

fn gen_case(tr: &mut Sink, idx: u64, subseed: u64, thorough: bool, rmask: u64, forced_profile: Option<&str>) {
    let mut rng = Rng::new(subseed);
    let weights = [30, 18, 10, 18, 12, 12];
    let mut profile = PROFILES[rng.weighted(&weights)].clone();
    if let Some(name) = forced_profile {
        profile = PROFILES.iter().find(|p| p.name == name).cloned().unwrap_or(profile);
    }
    let adversarial = profile.name == "adversarial";
    let consts = hk::constants();
    let nextq = rng.range(1, 3) as u32;
    let steps = if thorough { rng.range(40, 110) } else { rng.range(25, 70) };
    tr.case(idx, subseed, &format!(
        "qerr={} rerr={} rmask={rmask} nextq={nextq} profile={} steps={steps}",
        consts.max_queued_status_error_count, consts.max_running_status_error_count, profile.name
    ));
    let mut c = Case::new(subseed, false, profile.clone(), nextq);
    let mut removed_queues: Vec<u32> = vec![];
    // a burst repeats the same kind of op (error streaks, back-off ladders)
    let mut burst: Option<(u8, u64)> = None;
    for step in 0..steps {
        if c.dead {
            break;
        }
        let snap = c.snapshot();
        let qids: Vec<u32> = snap.queues.iter().map(|q| q.id).collect();
        let known: Vec<u64> = c.env.borrow().known_ids.clone();
        let any_q = |rng: &mut Rng| -> u32 {
            if !qids.is_empty() && rng.chance(9, 10) { *rng.pick(&qids) }
            else if !removed_queues.is_empty() && rng.chance(1, 2) { *rng.pick(&removed_queues) }
            else { rng.range(1, 6) as u32 }
        };
        let kind = if step == 0 || qids.is_empty() && rng.chance(4, 5) {
            0
        } else if let Some((k, n)) = burst {
            burst = if n > 1 { Some((k, n - 1)) } else { None };
            k
        } else {
            let add_w = if qids.len() >= 3 { 0 } else if qids.len() == 1 { 5 } else { 3 };
            let resume_w = if profile.name == "resume" || profile.name == "failing" { 9 } else { 4 };
            let mut k = rng.weighted(&[add_w, 16, 16, 2, 3, 3, resume_w, 30, 14]) as u8;
            let any_active = snap.queues.iter().any(|q| q.active && q.allocations.iter().any(|a| is_active(&a.state)));
            if k == 8 && !any_active && rng.chance(3, 4) {
                // a refresh with nothing to ask is a no-op: mostly tick instead
                k = 7;
            }
            let errors = profile.name == "errors";
            if (k == 7 || k == 8) && rng.chance(1, if errors && k == 8 { 3 } else { 7 }) {
                burst = Some((k, rng.range(3, if k == 8 { if errors { 34 } else { 24 } } else { 12 })));
            }
            k
        };
        let op = match kind {
            0 => {
                let wpa = if adversarial && rng.chance(1, 12) { 0 } else { rng.range(1, 3) as u32 };
                let mwc = if rng.chance(1, 3) { None } else { Some(rng.range(if adversarial { 0 } else { 1 }, 6) as u32) };
                let limiter = if rng.chance(1, 3) {
                    None
                } else {
                    let delays = match rng.below(5) {
                        0 => vec![0],
                        1 => vec![0, 1000, 10_000],
                        2 => vec![500, 2000],
                        3 => vec![0, 0, 3000],
                        _ => vec![100],
                    };
                    Some((delays, rng.range(1, 4), rng.range(1, 3)))
                };
                let qid = if adversarial && rng.chance(1, 4) { Some(rng.range(1, 5) as u32) } else { None };
                Op::AddQ { bl: rng.range(1, 3) as u32, wpa, mwc, limiter, qid, pbs: rng.chance(1, 2) }
            }
            1 | 2 => {
                // worker connect / loss: mostly known allocations, some unknown
                let a = if !known.is_empty() && rng.chance(9, 10) { *rng.pick(&known) } else { 900 + rng.below(3) };
                // prefer allocations that are still active
                let a = {
                    let active: Vec<u64> = snap.queues.iter().flat_map(|q| q.allocations.iter()).filter(|x| is_active(&x.state)).map(|x| aid(&x.id)).collect();
                    if !active.is_empty() && rng.chance(7, 10) { *rng.pick(&active) } else { a }
                };
                let w = rng.range(1, 5) as u32;
                if kind == 1 {
                    Op::WConn { w, a }
                } else {
                    // prefer a connected worker of that allocation
                    let conn: Vec<u32> = snap.queues.iter().flat_map(|q| q.allocations.iter()).filter(|x| aid(&x.id) == a)
                        .flat_map(|x| match &x.state { VerifAllocState::Running { connected, .. } => connected.clone(), _ => vec![] }).collect();
                    let w = if !conn.is_empty() && rng.chance(2, 3) { *rng.pick(&conn) } else { w };
                    let reason = *rng.pick(&[LostWorkerReason::Stopped, LostWorkerReason::ConnectionLost, LostWorkerReason::ConnectionLost,
                        LostWorkerReason::HeartbeatLost, LostWorkerReason::IdleTimeout, LostWorkerReason::TimeLimitReached]);
                    let life = *rng.pick(&[1, 1000, 59_999, 60_000, 60_001, 3_600_000]);
                    Op::WLost { w, a, reason, life }
                }
            }
            3 => Op::Job,
            4 => Op::RmQ { q: any_q(&mut rng), force: rng.chance(1, 2) },
            5 => Op::Pause { q: any_q(&mut rng) },
            6 => {
                // prefer paused queues
                let paused: Vec<u32> = snap.queues.iter().filter(|q| !q.active).map(|q| q.id).collect();
                let q = if !paused.is_empty() && rng.chance(4, 5) { *rng.pick(&paused) } else { any_q(&mut rng) };
                Op::Resume { q }
            }
            7 => {
                // advance the clock around the back-off delay of some queue
                let now0 = c.env.borrow().now;
                let mut cands: Vec<u64> = vec![now0, now0 + rng.range(1, 50)];
                for q in &snap.queues {
                    if let Some(last) = q.limiter.last_submission_ms {
                        let d = q.limiter.delays_ms[q.limiter.current_delay.min(q.limiter.delays_ms.len() - 1)];
                        for t in [(last + d).saturating_sub(1), last + d, last + d + 1] {
                            if t >= now0 { cands.push(t); cands.push(t); }
                        }
                    }
                }
                if rng.chance(1, 10) {
                    cands.push(now0 + 4_000_000);
                }
                let now = *rng.pick(&cands);
                // demand of every queue (what the scheduler would answer)
                let mut env = c.env.borrow_mut();
                env.demand.clear();
                for q in &snap.queues {
                    let sn = if rng.chance(1, 4) { 0 } else { rng.range(1, 7) as u32 };
                    let (mna, mnw) = if rng.chance(profile.p_mn, 100) && q.max_workers_per_alloc > 0 {
                        (rng.range(1, 2) as u32, rng.range(1, q.max_workers_per_alloc as u64) as u32)
                    } else { (0, 0) };
                    env.demand.insert(q.id, (sn, mna, mnw));
                }
                Op::Tick { now }
            }
            _ => Op::Refresh,
        };
        if let Op::RmQ { q, .. } = &op {
            if qids.contains(q) && !removed_queues.contains(q) {
                removed_queues.push(*q);
            }
        }
        c.apply(tr, &op);
    }
    tr.end();
}

// ------------------------------------------------------------------------------------------------
// Small-scope exhaustive enumeration (thorough tier): one queue (backlog 2, 2 workers/allocation, at most 3 workers,
// delays [0, 1000] ms, 2 failures allowed), a fixed alphabet of 17 operations, breadth-first over the distinct
// implementation states (state hashing), every (state, operation) edge becomes one case = path + operation.
// ------------------------------------------------------------------------------------------------

#[derive(Clone, Copy, Debug, PartialEq)]
enum XOp {
    Tick { dt: u64, demand: Demand, ok: bool },
    Refresh(VerifStatus),
    Conn(u32),
    Lost(u32, bool),
    Pause,
    Resume,
    Remove(bool),
}

const ALPHABET: [XOp; 17] = [
    XOp::Tick { dt: 0, demand: (3, 0, 0), ok: true },
    XOp::Tick { dt: 0, demand: (3, 0, 0), ok: false },
    XOp::Tick { dt: 1000, demand: (3, 0, 0), ok: true },
    XOp::Tick { dt: 1000, demand: (1, 1, 2), ok: true },
    XOp::Tick { dt: 999, demand: (0, 0, 0), ok: true },
    XOp::Refresh(VerifStatus::Queued),
    XOp::Refresh(VerifStatus::Running),
    XOp::Refresh(VerifStatus::Finished),
    XOp::Refresh(VerifStatus::Failed),
    XOp::Refresh(VerifStatus::Error),
    XOp::Conn(1),
    XOp::Conn(2),
    XOp::Lost(1, true),
    XOp::Lost(2, false),
    XOp::Pause,
    XOp::Resume,
    XOp::Remove(false),
];

/// Runs `path` on a fresh implementation; returns the canonical key of the reached state (`None` after a panic).
fn run_path(tr: &mut Sink, idx: u64, path: &[XOp], rmask: u64) -> Option<String> {
    let consts = hk::constants();
    tr.case(idx, 0, &format!(
        "qerr={} rerr={} rmask={rmask} nextq=1 profile=exhaustive depth={}",
        consts.max_queued_status_error_count, consts.max_running_status_error_count, path.len()
    ));
    let profile = Profile { name: "exhaustive", ..Default::default() };
    let mut c = Case::new(0, false, profile, 1);
    c.apply(tr, &Op::AddQ { bl: 2, wpa: 2, mwc: Some(3), limiter: Some((vec![0, 1000], 2, 2)), qid: None, pbs: false });
    for x in path {
        if c.dead {
            break;
        }
        let snap = c.snapshot();
        // the oldest active allocation (else allocation 1: finished, removed or unknown)
        let target = snap.queues.iter().flat_map(|q| q.allocations.iter()).filter(|a| is_active(&a.state)).map(|a| aid(&a.id)).min().unwrap_or(1);
        let op = match *x {
            XOp::Tick { dt, demand, ok } => {
                let mut env = c.env.borrow_mut();
                env.fixed = Some((ok, VerifStatus::Queued));
                env.demand.clear();
                env.demand.insert(1, demand);
                Op::Tick { now: env.now + dt }
            }
            XOp::Refresh(st) => {
                c.env.borrow_mut().fixed = Some((true, st));
                Op::Refresh
            }
            XOp::Conn(w) => Op::WConn { w, a: target },
            XOp::Lost(w, crash) => Op::WLost { w, a: target, reason: if crash { LostWorkerReason::ConnectionLost } else { LostWorkerReason::Stopped }, life: if crash { 1000 } else { 3_600_000 } },
            XOp::Pause => Op::Pause { q: 1 },
            XOp::Resume => Op::Resume { q: 1 },
            XOp::Remove(force) => Op::RmQ { q: 1, force },
        };
        c.apply(tr, &op);
    }
    tr.end();
    if c.dead {
        return None;
    }
    // state key: the snapshot, with the clock reduced to "time since the last attempt, capped at the largest delay"
    let snap = c.snapshot();
    let now = c.env.borrow().now;
    let mut key = String::new();
    for q in &snap.queues {
        let since = q.limiter.last_submission_ms.map(|t| (now - t).min(1000));
        key.push_str(&format!("{}|{}|{:?}|{}|{}|{}|", q.active, q.limiter.current_delay, since, q.limiter.allocation_fails, q.limiter.submission_fails, q.has_worker_resources));
        for a in sorted_allocs(q) {
            // allocation ids are renamed by position; finished allocations only matter by kind
            key.push_str(&alloc_line(0, a).splitn(3, ' ').nth(2).unwrap_or("").replacen(&format!("{} ", a.id), "", 1));
            key.push(';');
        }
    }
    key.push_str(&format!("#a2q={}", snap.allocation_to_queue.len()));
    Some(key)
}

fn exhaustive(out: &mut Sink, shard: u64, nshards: u64, depth: usize, max_edges: u64, rmask: u64) {
    let mut muted = Sink { tr: None };
    let mut seen: std::collections::HashSet<String> = Default::default();
    let mut frontier: VecDeque<Vec<XOp>> = VecDeque::new();
    if let Some(k) = run_path(&mut muted, 0, &[], rmask) {
        seen.insert(k);
    }
    frontier.push_back(vec![]);
    let mut edges: u64 = 0;
    while let Some(path) = frontier.pop_front() {
        for x in ALPHABET {
            if edges >= max_edges {
                eprintln!("autoalloc exhaustive: edge budget {max_edges} reached (states {})", seen.len());
                return;
            }
            let mut p2 = path.clone();
            p2.push(x);
            let mine = edges % nshards == shard;
            edges += 1;
            let key = if mine { run_path(out, 9_000_000 + edges, &p2, rmask) } else { run_path(&mut muted, 0, &p2, rmask) };
            if let Some(k) = key {
                if p2.len() < depth && seen.insert(k) {
                    frontier.push_back(p2);
                }
            }
        }
    }
    eprintln!("autoalloc exhaustive: depth {depth}: {} distinct states, {edges} edges", seen.len());
}

// ------------------------------------------------------------------------------------------------
// Replay
// ------------------------------------------------------------------------------------------------

fn parse_op(toks: &[&str], env: &mut Env) -> Option<Op> {
    let num = |k: &str| arg(toks, k).and_then(|v| v.parse::<u64>().ok());
    let optnum = |k: &str| arg(toks, k).and_then(|v| if v == "-" { None } else { v.parse::<u32>().ok() });
    Some(match toks[0] {
        "addq" => {
            let limiter = (util::parse_list(arg(toks, "delays")?), num("msf")?, num("maf")?);
            let c = hk::constants();
            // the production limiter is kept when the recorded constants are the production ones
            let production = limiter == (c.submission_delays_ms, c.max_submission_fails, c.max_allocation_fails);
            Op::AddQ {
                bl: num("bl")? as u32,
                wpa: num("wpa")? as u32,
                mwc: optnum("mwc"),
                limiter: if production { None } else { Some(limiter) },
                qid: optnum("qid"),
                pbs: false,
            }
        }
        "wconn" => Op::WConn { w: num("w")? as u32, a: num("a")? },
        "wlost" => Op::WLost { w: num("w")? as u32, a: num("a")?, reason: parse_reason(arg(toks, "r")?), life: num("life")? },
        "job" => Op::Job,
        "rmq" => Op::RmQ { q: num("q")? as u32, force: num("force")? == 1 },
        "pause" => Op::Pause { q: num("q")? as u32 },
        "resume" => Op::Resume { q: num("q")? as u32 },
        "tick" => {
            env.script_query = parse_query(arg(toks, "resp")?);
            env.script_results = match arg(toks, "res")? {
                "-" => VecDeque::new(),
                s => s.split(',').map(|r| match r.split_once('/') {
                    Some(("ok", id)) => VerifSubmit::Ok(id.to_string()),
                    _ if r == "fail" => VerifSubmit::Fail,
                    _ => VerifSubmit::Err,
                }).collect(),
            };
            env.demand.clear();
            if let Some(d) = arg(toks, "dem") {
                if d != "-" {
                    for it in d.split(',') {
                        let (q, rest) = it.split_once(':')?;
                        let v: Vec<u32> = rest.split('/').map(|x| x.parse().unwrap()).collect();
                        env.demand.insert(q.parse().ok()?, (v[0], v[1], v[2]));
                    }
                }
            }
            env.query_perturbed = false;
            let pert = arg(toks, "pert").map(|v| v == "1").unwrap_or(true);
            if pert {
                // no liveness conclusions from a perturbed / undocumented answer
                env.demand.clear();
            }
            Op::Tick { now: num("now")? }
        }
        "refresh" => {
            env.script_reports.clear();
            let rep = arg(toks, "rep")?;
            if rep != "-" {
                for item in rep.split(';') {
                    let (q, body) = item.split_once('@')?;
                    let q: u32 = q.parse().ok()?;
                    if body.starts_with('!') {
                        env.script_reports.insert(q, ReportSpec::CallErr);
                    } else {
                        let mut m = BTreeMap::new();
                        for it in body.split(',') {
                            let (a, s) = it.split_once(':')?;
                            m.insert(a.parse().ok()?, parse_status(s));
                        }
                        env.script_reports.insert(q, ReportSpec::Statuses(m));
                    }
                }
            }
            Op::Refresh
        }
        _ => return None,
    })
}

fn replay(tr: &mut Sink) {
    let stdin = std::io::stdin();
    let mut case: Option<Case> = None;
    for line in stdin.lock().lines() {
        let line = line.unwrap();
        let toks: Vec<&str> = line.split_whitespace().collect();
        if toks.is_empty() {
            continue;
        }
        match toks[0] {
            "case" => {
                if case.take().is_some() {
                    tr.end();
                }
                let nextq = arg(&toks, "nextq").and_then(|v| v.parse().ok()).unwrap_or(1);
                // constants of the running implementation (not those recorded in the file)
                let consts = hk::constants();
                let rest: Vec<&str> = toks[3.min(toks.len())..].iter().copied()
                    .filter(|t| !t.starts_with("qerr=") && !t.starts_with("rerr=") && !t.starts_with("rmask=")).collect();
                tr.case(toks.get(1).and_then(|v| v.parse().ok()).unwrap_or(0), toks.get(2).and_then(|v| v.parse().ok()).unwrap_or(0),
                        &format!("qerr={} rerr={} rmask={} {}", consts.max_queued_status_error_count, consts.max_running_status_error_count,
                                 probe_resume_mask(), rest.join(" ")));
                let profile = Profile { name: "replay", ..Default::default() };
                case = Some(Case::new(0, true, profile, nextq));
            }
            "op" => {
                if let Some(c) = case.as_mut() {
                    if c.dead {
                        continue;
                    }
                    let parsed = {
                        let mut env = c.env.borrow_mut();
                        parse_op(&toks[1..], &mut env)
                    };
                    match parsed {
                        Some(op) => c.apply(tr, &op),
                        None => {
                            tr.op(&toks[1..].join(" "));
                            tr.out("!bad-op unparsable");
                            c.dead = true;
                        }
                    }
                }
            }
            "end" => {
                if case.take().is_some() {
                    tr.end();
                }
            }
            _ => {}
        }
    }
    if case.take().is_some() {
        tr.end();
    }
}

pub fn main(mode: &str, args: &[String]) {
    let a = GenArgs::parse(args);
    let mut trace = Trace::new();
    let mut tr = Sink { tr: Some(&mut trace) };
    match mode {
        "gen" => {
            let rmask = probe_resume_mask();
            let profile = a.value("--profile").map(|s| s.to_string());
            for k in 0..a.cases {
                let subseed = a.case_seed(k);
                gen_case(&mut tr, a.shard * 1_000_000 + k, subseed, a.thorough, rmask, profile.as_deref());
            }
            if a.thorough || a.has("--exhaustive") {
                let depth = a.value("--depth").and_then(|v| v.parse().ok()).unwrap_or(8);
                let max_edges = a.value("--max-edges").and_then(|v| v.parse().ok()).unwrap_or(60_000);
                exhaustive(&mut tr, a.shard, a.nshards, depth, max_edges, rmask);
            }
            if a.has("--cover") {
                COVER.with(|c| {
                    for (k, v) in c.borrow().iter() {
                        eprintln!("{v:>8}  {k}");
                    }
                });
            }
        }
        "case" => {
            // hqv autoalloc case <subseed> [--tier thorough] [--profile p]   (regenerate one case from its header)
            let subseed: u64 = args[0].parse().unwrap();
            let rmask = probe_resume_mask();
            gen_case(&mut tr, 0, subseed, a.thorough, rmask, a.value("--profile"));
        }
        "replay" => replay(&mut tr),
        "probe" => {
            println!("resume_mask={} constants={:?}", probe_resume_mask(), hk::constants());
        }
        _ => {
            eprintln!("component autoalloc: unknown mode {mode}");
            std::process::exit(2);
        }
    }
    trace.flush();
}
